"""C20 -- factor-similarity metrics are optimal and invariant to CP indeterminacies.
Correspondence: Model/Metrics.v at Qops vs tensorly/metrics/{factors,similarity,regression,leverage_scores}.py and
cp_tensor.cp_permute_factors.  Oracle answers (column norms, the assignment returned through the implementation, the thin
SVD) travel as data and their contracts are re-checked in Coq (norm^2 = sum of squares; the returned matching against the
brute force over all r! matchings, by value, and -- at ranks up to 10 (thorough 14) -- against a dual certificate whose
soundness is a theorem (C20_dual_certificate_optimal); U^T U = I, U S V^T = M).  The sqrt-based regression metrics are
executed in the model with a 2^-100 square root (Corr.C20.qsqrt).
Predicates (independent NumPy / Fraction transcriptions of the theorem statements) run on the implementation's outputs."""
import itertools, math, random
from fractions import Fraction
import numpy as np
from harness import common as C

HEADER = """From Coq Require Import List ZArith QArith Bool. Import ListNotations.
From TLV Require Import Base.Tensor Model.Metrics Model.MetricsSrc Model.MetricsPermute Corr.C20."""

EPS64 = float(np.finfo(np.float64).eps)
METHODS = ["stacked", "max_score", "min_score", "avg_score"]
METH_LIT = {"stacked": "(Some Stacked)", "max_score": "(Some MaxScore)", "min_score": "(Some MinScore)",
            "avg_score": "(Some AvgScore)", "bogus": "None"}
REG = ["MSE", "RMSE", "R2_score", "covariance", "variance", "correlation", "reflective_correlation_coefficient",
       "standard_deviation"]


# ----------------------------------------------------------------------------- literals
def mat_lit(a):
    a = np.asarray(a, dtype=np.float64)
    if a.shape[0] == 0:
        return "(@nil (list Q))"
    return "[" + "; ".join(C.q_list([float(x) for x in row]) for row in a) + "]"


def mats_lit(ms):
    return "[" + "; ".join(mat_lit(m) for m in ms) + "]" if len(ms) else "(@nil (mat Q))"


def qlists_lit(ls):
    return "[" + "; ".join(C.q_list([float(x) for x in l]) for l in ls) + "]" if len(ls) else "(@nil (list Q))"


def tensor_lit(a):
    a = np.asarray(a, dtype=np.float64)
    return C.qtensor(list(a.shape), [float(x) for x in a.ravel()])


def finite(x):
    return bool(np.all(np.isfinite(np.asarray(x, dtype=np.float64))))


# ----------------------------------------------------------------------------- generators
def dyadic_matrix(rng, rows, cols, den=8, lim=16):
    while True:
        a = np.array([[rng.randint(-lim, lim) / den for _ in range(cols)] for _ in range(rows)], dtype=np.float64).reshape(rows, cols)
        if rows == 0 or cols == 0 or np.all(np.abs(a).sum(axis=0) > 0):
            return a


def int_norm_matrix(rng, rows, cols, den=8, lim=8):
    """dyadic matrix whose columns have an exactly representable norm (integer vector with a perfect-square sum of squares,
    divided by den): sqrt is exact on it, the norm tape is a short dyadic and the exact Q evaluation of the model stays on
    small denominators (cheap Qred).  The remaining share of the cases uses unrestricted dyadic columns."""
    a = np.zeros((rows, cols), dtype=np.float64)
    for j in range(cols):
        while True:
            v = [rng.randint(-lim, lim) for _ in range(rows)]
            s2 = sum(x * x for x in v)
            if s2 > 0 and math.isqrt(s2) ** 2 == s2:
                break
        a[:, j] = np.array(v, dtype=np.float64) / den
    return a


def factor_set(rng, rank, heights, generic=False, intnorm=None):
    """list of (I_m x rank) dyadic matrices without zero columns; generic: no two components look alike;
    intnorm (default: 3 times out of 4): columns with exactly representable norms"""
    if intnorm is None:
        intnorm = rng.random() < 0.75
    mk = int_norm_matrix if intnorm else dyadic_matrix
    for _ in range(200):
        fs = [mk(rng, h, rank) for h in heights]
        if not generic or rank == 1:
            return fs
        c = np.ones((rank, rank))
        for f in fs:
            n = f / np.linalg.norm(f, axis=0)
            c *= np.abs(n.T @ n)
        if np.max(c - np.eye(rank)) < 0.9:
            return fs
    return fs


def scalings(rng, rank, n_modes, kind):
    """per-mode column scalings (all non-zero).  kind: 'pos' | 'signed' | 'common' (same signed scaling in every mode)"""
    pool = [0.25, 0.5, 1.0, 1.5, 2.0, 3.0, 0.125, 5.0]
    if kind == "common":
        d = [rng.choice(pool) * rng.choice([1, -1]) for _ in range(rank)]
        return [list(d) for _ in range(n_modes)]
    out = []
    for _ in range(n_modes):
        out.append([rng.choice(pool) * (rng.choice([1, -1]) if kind == "signed" else 1) for _ in range(rank)])
    return out


def equivalent_copy(fs, sigma, ds):
    """B_m[:, j] = d_mj * A_m[:, sigma[j]]"""
    return [f[:, list(sigma)] * np.array(d, dtype=np.float64) for f, d in zip(fs, ds)]


def col_norms(m):
    import tensorly as tl
    return [float(x) for x in np.asarray(tl.norm(tl.tensor(np.asarray(m, dtype=np.float64)), axis=0)).ravel()]


# ----------------------------------------------------------------------------- congruence_coefficient
def ref_congruence_matrix(As, Bs, absv):
    c = None
    for a, b in zip(As, Bs):
        na = a / np.sqrt((a * a).sum(axis=0)); nb = b / np.sqrt((b * b).sum(axis=0))
        m = na.T @ nb
        if absv:
            m = np.abs(m)
        c = m if c is None else c * m
    return c


def hungarian_min(cost):
    """O(n^3) Hungarian algorithm (shortest augmenting paths with potentials), minimisation.  -> (u, v, row_to_col) with
    u[i] + v[j] <= cost[i][j] for all i, j and equality on the returned matching.  Independent of scipy: used (a) as the
    optimum in the Python predicate at ranks where r! is out of reach and (b) as the source of the column potentials of the
    dual certificate that Coq checks (the potentials are UNTRUSTED data: Coq recomputes the row potentials and the gap)."""
    n = len(cost); INF = float("inf")
    u = [0.0] * (n + 1); v = [0.0] * (n + 1); p = [0] * (n + 1); way = [0] * (n + 1)
    for i in range(1, n + 1):
        p[0] = i; j0 = 0
        minv = [INF] * (n + 1); used = [False] * (n + 1)
        while True:
            used[j0] = True; i0 = p[j0]; delta = INF; j1 = 0
            for j in range(1, n + 1):
                if not used[j]:
                    cur = cost[i0 - 1][j - 1] - u[i0] - v[j]
                    if cur < minv[j]:
                        minv[j] = cur; way[j] = j0
                    if minv[j] < delta:
                        delta = minv[j]; j1 = j
            for j in range(n + 1):
                if used[j]:
                    u[p[j]] += delta; v[j] -= delta
                else:
                    minv[j] -= delta
            j0 = j1
            if p[j0] == 0:
                break
        while True:
            j1 = way[j0]; p[j0] = p[j1]; j0 = j1
            if j0 == 0:
                break
    row_to_col = [0] * n
    for j in range(1, n + 1):
        row_to_col[p[j] - 1] = j - 1
    return u[1:], v[1:], row_to_col


def max_matching_potentials(cm):
    """column potentials vs of the MAXIMISATION problem on cm (C_ij <= u_i + vs_j) and the optimal mean"""
    r = cm.shape[0]
    u, v, m = hungarian_min([[-float(cm[i, j]) for j in range(r)] for i in range(r)])
    return [-x for x in v], float(np.mean([cm[i, m[i]] for i in range(r)]))


def call_congruence(call):
    from tensorly.metrics.factors import congruence_coefficient
    import tensorly as tl
    As = [tl.tensor(a.copy()) for a in call["As"]]; Bs = [tl.tensor(b.copy()) for b in call["Bs"]]
    if call.get("single"):
        a1, b1 = As[0], Bs[0]
    else:
        a1, b1 = As, Bs
    if call.get("absv") is None:
        return C.call_impl(congruence_coefficient, a1, b1)
    return C.call_impl(congruence_coefficient, a1, b1, absolute_value=call["absv"])


def absv_of(call):
    return True if call.get("absv") is None else bool(call["absv"])


def pred_congruence(call, out):
    """-> list of (predicate, message)"""
    st, v = out
    fails = []
    if call.get("malformed"):
        if st != "reject":
            fails.append(("C20_rejects_malformed", f"malformed input ({call['malformed']}) was not rejected: {st} {str(v)[:80]}"))
        return fails
    if st != "ok":
        return [("C20_congruence_defined", f"valid input raised: {v}")]
    val, perm = v
    val = float(val); perm = [int(x) for x in perm]
    absv = absv_of(call)
    r = call["As"][0].shape[1]
    if sorted(perm) != list(range(r)):
        return [("C20_congruence_is_max", f"returned permutation {perm} is not a permutation of 0..{r - 1}")]
    if not math.isfinite(val):
        return [("C20_congruence_range", f"value {val}")]
    lo = 0.0 if absv else -1.0
    if not (lo - 1e-12 <= val <= 1 + 1e-12):
        fails.append(("C20_congruence_range", f"value {val!r} outside [{lo}, 1]"))
    cm = ref_congruence_matrix(call["As"], call["Bs"], absv)
    mine = float(np.mean([cm[i, perm[i]] for i in range(r)]))
    if abs(mine - val) > 1e-9:
        fails.append(("C20_congruence_is_max", f"value {val!r} is not the mean congruence {mine!r} of the returned matching {perm}"))
    unique = False
    if r <= 7:
        scores = sorted(float(np.mean([cm[i, p[i]] for i in range(r)])) for p in itertools.permutations(range(r)))
        best = scores[-1]
        unique = r == 1 or scores[-2] < best - 1e-6      # the optimal matching is unique (no ties / near-ties)
        if val < best - 1e-9:
            fails.append(("C20_congruence_is_max", f"value {val!r} below the optimum {best!r} over all {math.factorial(r)} matchings"))
    else:
        _, best = max_matching_potentials(cm)
        if val < best - 1e-9:
            fails.append(("C20_congruence_is_max", f"value {val!r} below the optimum {best!r} (Hungarian algorithm, rank {r})"))
    if call.get("sigma") is not None:
        sigma = call["sigma"]
        rec = [sigma.index(i) for i in range(r)]          # the recovering permutation: B[:, rec[i]] is a multiple of A[:, i]
        rec_val = float(np.mean([cm[i, rec[i]] for i in range(r)]))
        if abs(rec_val - 1) > 1e-9:
            fails.append(("C20_harness_self_check", f"generator: recovering permutation {rec} has value {rec_val!r}"))
        if abs(val - 1) > 1e-9:
            fails.append(("C20_congruence_equiv_one", f"equivalent factor sets (sigma={sigma}) have congruence {val!r} != 1"))
        # two components of A may be collinear in every mode (few rows, many columns): then several matchings reach 1
        # and any of them is a correct answer; the returned one must be THE recovering permutation only when it is unique
        if unique and perm != rec:
            fails.append(("C20_congruence_equiv_one", f"returned permutation {perm} is not the recovering permutation {rec} (sigma={sigma})"))
    return fails


def emit_congruence(cid, call, out):
    st, v = out
    As, Bs = call["As"], call["Bs"]
    nas = [col_norms(a) for a in As]; nbs = [col_norms(b) for b in Bs]
    if st == "ok":
        impl = f"(Ok ({C.q(float(v[0]))}, {C.nat_list([int(x) for x in v[1]])}))"
    else:
        impl = "Err"
    return (f"({cid}%nat, KCong {C.boolc(absv_of(call))} {mats_lit(As)} {mats_lit(Bs)} {qlists_lit(nas)} {qlists_lit(nbs)} {impl})")


def emit_congruence_dual(cid, call, out):
    st, v = out
    As, Bs = call["As"], call["Bs"]
    nas = [col_norms(a) for a in As]; nbs = [col_norms(b) for b in Bs]
    r = As[0].shape[1]
    vs = max_matching_potentials(ref_congruence_matrix(As, Bs, absv_of(call)))[0]
    if st == "ok":
        impl = f"(Ok ({C.q(float(v[0]))}, {C.nat_list([int(x) for x in v[1]])}))"
    else:
        impl = "Err"
    return (f"({cid}%nat, KCongDual {C.boolc(absv_of(call))} {mats_lit(As)} {mats_lit(Bs)} {qlists_lit(nas)} {qlists_lit(nbs)} "
            f"{C.q_list([float(x) for x in vs])} {C.boolc(r <= 5)} {impl})")


def gen_congruence_dual(tier, rng):
    """optimality decided by the dual certificate (checked in Coq), at ranks beyond the r! brute force too; at rank <= 5 the
    brute force runs as well (the two deciders must agree)"""
    calls = []
    ranks = [2, 3, 5, 6, 7, 8, 9, 10] if tier == "quick" else [2, 3, 4, 5, 6, 7, 8, 9, 10, 11, 12, 14]
    reps = 1 if tier == "quick" else 3
    for r in ranks:
        for kind in ("random", "equivalent", "ties", "perturbed"):
            for _ in range(reps):
                nm = rng.choice([1, 2, 3]); hs = [rng.randint(2, 5) for _ in range(nm)]
                absv = rng.choice([True, False, None]) if kind in ("random", "ties") else True
                A = factor_set(rng, r, hs, generic=(kind != "ties"), intnorm=True)
                sigma = list(range(r)); rng.shuffle(sigma)
                call = dict(As=A, absv=absv, stream="certified-" + kind, single=(nm == 1 and rng.random() < 0.5))
                if kind == "random":
                    call["Bs"] = factor_set(rng, r, hs, intnorm=True)
                elif kind == "equivalent":
                    call["Bs"] = equivalent_copy(A, sigma, scalings(rng, r, nm, "signed")); call["sigma"] = sigma; call["generic"] = True
                elif kind == "ties":
                    j, k2 = rng.sample(range(r), 2)
                    for f in A:
                        f[:, j] = f[:, k2]
                    call["Bs"] = equivalent_copy(A, sigma, scalings(rng, r, nm, "signed" if absv_of(call) else "pos"))
                else:
                    B = equivalent_copy(A, sigma, scalings(rng, r, nm, "signed"))
                    B = [b + np.array([[rng.randint(-2, 2) / 16 for _ in range(r)] for _ in range(b.shape[0])]) for b in B]
                    if not all(np.all(np.abs(b).sum(axis=0) > 0) for b in B):
                        continue
                    call["Bs"] = B
                calls.append(call)
    return calls


def gen_congruence(tier, rng):
    maxr = 5 if tier == "quick" else 6
    calls = []
    # (a) independent random factor sets
    n_rand = 150 if tier == "quick" else 360
    for k in range(n_rand):
        r = 1 + k % maxr
        nm = rng.choice([1, 1, 2, 3])
        hs = [rng.randint(1, 5) for _ in range(nm)]
        A = factor_set(rng, r, hs); B = factor_set(rng, r, hs)
        absv = rng.choice([True, False, None])
        calls.append(dict(As=A, Bs=B, absv=absv, single=(nm == 1 and rng.random() < 0.5), stream="random"))
    # (b) equivalent copies: every permutation for rank <= 4 (thorough: <= 5), sampled scalings
    for r in range(1, (5 if tier == "quick" else 6)):
        for sigma in itertools.permutations(range(r)):
            reps = 1 if r == (4 if tier == "quick" else 5) else 2
            for rep in range(reps):
                nm = rng.choice([1, 2, 3])
                hs = [rng.randint(2, 5) for _ in range(nm)]
                A = factor_set(rng, r, hs, generic=True)
                absv = [True, False][rep % 2] if reps == 2 else rng.choice([True, False])
                ds = scalings(rng, r, nm, "signed" if absv else "pos")
                B = equivalent_copy(A, sigma, ds)
                calls.append(dict(As=A, Bs=B, absv=absv, single=(nm == 1 and rng.random() < 0.5), sigma=list(sigma),
                                  generic=True, stream="equivalent"))
    for _ in range(20 if tier == "quick" else 50):   # larger ranks, sampled permutations
        r = maxr
        sigma = list(range(r)); rng.shuffle(sigma)
        nm = rng.choice([1, 2, 3]); hs = [rng.randint(2, 5) for _ in range(nm)]
        A = factor_set(rng, r, hs, generic=True)
        B = equivalent_copy(A, sigma, scalings(rng, r, nm, "signed"))
        calls.append(dict(As=A, Bs=B, absv=True, sigma=sigma, generic=True, stream="equivalent"))
    # (c) ties: repeated columns / sign patterns -> several optimal matchings, compared by value
    for _ in range(25 if tier == "quick" else 100):
        r = rng.randint(2, maxr); nm = rng.choice([1, 2]); hs = [rng.randint(1, 4) for _ in range(nm)]
        A = factor_set(rng, r, hs)
        j, k2 = rng.sample(range(r), 2)
        for f in A:
            f[:, j] = f[:, k2]
        sigma = list(range(r)); rng.shuffle(sigma)
        B = equivalent_copy(A, sigma, scalings(rng, r, nm, "signed")) if rng.random() < 0.5 else factor_set(rng, r, hs)
        calls.append(dict(As=A, Bs=B, absv=rng.choice([True, False]), stream="ties"))
    # (d) perturbed copies (matching still recoverable but value < 1)
    for _ in range(30 if tier == "quick" else 100):
        r = rng.randint(2, maxr); nm = rng.choice([1, 2, 3]); hs = [rng.randint(3, 6) for _ in range(nm)]
        A = factor_set(rng, r, hs, generic=True)
        sigma = list(range(r)); rng.shuffle(sigma)
        B = equivalent_copy(A, sigma, scalings(rng, r, nm, "signed"))
        B = [b + np.array([[rng.randint(-2, 2) / 16 for _ in range(r)] for _ in range(b.shape[0])]) for b in B]
        if all(np.all(np.abs(b).sum(axis=0) > 0) for b in B):
            calls.append(dict(As=A, Bs=B, absv=True, stream="perturbed"))
    # (e) malformed requests: both sides must reject
    for k in range(18 if tier == "quick" else 48):
        r = rng.randint(1, 4); hs = [rng.randint(1, 4) for _ in range(2)]
        A = factor_set(rng, r, hs); B = factor_set(rng, r, hs)
        kind = ["lengths", "columns", "rows", "zero_column", "empty", "columns_first"][k % 6]
        if kind == "lengths":
            B = B[:1]
        elif kind == "empty":              # two empty lists: nothing to compare, linear_sum_assignment is handed the scalar 1
            A, B = [], []
        elif kind == "columns_first":      # the FIRST matrix is the odd one (the model compares with the first matrix's rank)
            A[0] = dyadic_matrix(rng, hs[0], r + 1)
        elif kind == "columns":
            B[1] = dyadic_matrix(rng, hs[1], r + 1)
        elif kind == "rows":
            B[0] = dyadic_matrix(rng, hs[0] + 1, r)
        else:
            (A if (k // 6) % 2 == 0 else B)[rng.randrange(2)][:, rng.randrange(r)] = 0.0
        calls.append(dict(As=A, Bs=B, absv=True, malformed=kind, stream="malformed"))
    return calls


# ----------------------------------------------------------------------------- cp_permute_factors
def permute_entries(call):
    """the (weights, factors, sigma) of the tensors handed to cp_permute_factors, in call order"""
    me = (call["w"], call["Bs"], call.get("sigma"))
    if not call.get("as_list"):
        return [me]
    other = (call["w_other"], call["Bs_other"], call.get("sigma_other"))
    return [me, other] if call.get("pick", 0) == 0 else [other, me]


def call_permute(call):
    import tensorly as tl
    from tensorly.cp_tensor import CPTensor, cp_permute_factors
    ref = CPTensor((tl.tensor(call["wref"].copy()), [tl.tensor(a.copy()) for a in call["As"]]))
    ts = [CPTensor((tl.tensor(w.copy()), [tl.tensor(b.copy()) for b in Bs])) for (w, Bs, _) in permute_entries(call)]
    def touched(v):
        """cp_copy: the permuted tensors are COPIES; the arguments (reference, tensors, the caller's list) keep their values"""
        ents = permute_entries(call)
        bad = []
        if not (np.array_equal(np.asarray(ref.weights), call["wref"]) and all(np.array_equal(np.asarray(f), a) for f, a in zip(ref.factors, call["As"]))):
            bad.append("the reference was modified")
        for j, (t, (w, Bs, _)) in enumerate(zip(ts, ents)):
            if not (np.array_equal(np.asarray(t.weights), w) and all(np.array_equal(np.asarray(f), b) for f, b in zip(t.factors, Bs))):
                bad.append(f"argument tensor {j} was modified")
            if v is not None and any(o is t for o in v):
                bad.append(f"argument tensor {j} itself was returned (no copy)")
        return bad
    if call.get("as_list"):
        arg = list(ts)
        st, v = C.call_impl(cp_permute_factors, ref, arg)     # a list of two DIFFERENT tensors
        if st == "ok" and not (isinstance(v[0], list) and len(v[0]) == len(ts) and len(v[1]) == len(ts)):
            return "ok", (None, None)
        if st == "ok":
            call["_touched"] = touched(v[0]) + (["the caller's list was modified"] if not (len(arg) == len(ts) and all(x is y for x, y in zip(arg, ts))) else [])
        return st, v
    st, v = C.call_impl(cp_permute_factors, ref, ts[0])
    if st == "ok":
        v = ([v[0]], v[1])
        call["_touched"] = touched(v[0])
    return st, v


def pred_permute_one(As, Bs, w, sigma, pt, perm, tag):
    r = As[0].shape[1]
    fails = []
    if sorted(perm) != list(range(r)):
        return [("C20_permute_aligned", f"{tag}returned permutation {perm} is not a permutation")]
    w2, f2 = pt
    if not np.array_equal(np.asarray(w2), w[perm]):
        fails.append(("C20_permute_aligned", f"{tag}weights are not the input weights permuted by the returned permutation"))
    if len(f2) != len(Bs):
        return fails + [("C20_permute_aligned", f"{tag}{len(f2)} factors returned for {len(Bs)}")]
    for m, (f, b) in enumerate(zip(f2, Bs)):
        if not np.array_equal(np.asarray(f), b[:, perm]):
            fails.append(("C20_permute_aligned", f"{tag}factor {m} is not the input factor with columns permuted by the returned permutation"))
    # optimal alignment with the reference (all r! matchings)
    cm = ref_congruence_matrix(As, Bs, True)
    val = float(np.mean([cm[i, perm[i]] for i in range(r)]))
    best = max(float(np.mean([cm[i, p[i]] for i in range(r)])) for p in itertools.permutations(range(r)))
    if val < best - 1e-9:
        fails.append(("C20_permute_aligned", f"{tag}alignment {val!r} of the returned permutation below the optimum {best!r}"))
    if sigma is not None and not fails:
        # collinearity: component i of the result is a multiple of component i of the reference (rank of [f_i a_i] is 1)
        for m, (f, a) in enumerate(zip(f2, As)):
            f = np.asarray(f)
            for i in range(r):
                cs = abs(float(f[:, i] @ a[:, i])) / math.sqrt(float(f[:, i] @ f[:, i]) * float(a[:, i] @ a[:, i]))
                if abs(cs - 1) > 1e-9:
                    fails.append(("C20_permute_aligned", f"{tag}component {i} of mode {m} is not collinear with the reference (|cos|={cs!r})"))
                    break
    return fails


def pred_permute(call, out):
    st, v = out
    if st != "ok":
        return [("C20_permute_defined", f"valid input raised: {v}")]
    pts, perms = v
    if pts is None:
        return [("C20_permute_aligned", "a list of two CP tensors did not yield two permuted tensors and two permutations")]
    fails = [("C20_permute_inputs_untouched", m) for m in call.get("_touched", [])]
    ents = permute_entries(call)
    for j, ((w, Bs, sigma), pt, pm) in enumerate(zip(ents, pts, perms)):
        perm = [int(x) for x in np.asarray(pm).ravel()]
        fails += pred_permute_one(call["As"], Bs, w, sigma, pt, perm, f"tensor {j} of {len(ents)}: " if len(ents) > 1 else "")
    return fails


def out_lit(pt, pm):
    w2, f2 = pt
    perm = [int(x) for x in np.asarray(pm).ravel()]
    return f"({C.q_list([float(x) for x in np.asarray(w2).ravel()])}, {mats_lit([np.asarray(f) for f in f2])}, {C.nat_list(perm)})"


def emit_permute(cid, call, out):
    st, v = out
    As = call["As"]
    nas = [col_norms(a) for a in As]
    ents = permute_entries(call)
    if call.get("as_list"):
        ts = "[" + "; ".join(f"({C.q_list([float(x) for x in w])}, {mats_lit(Bs)}, {qlists_lit([col_norms(b) for b in Bs])})"
                             for (w, Bs, _) in ents) + "]"
        if st == "ok" and v[0] is None:
            impl = "(Ok (@nil (list Q * list (mat Q) * list nat)))"
        elif st == "ok":
            impl = "(Ok [" + "; ".join(out_lit(pt, pm) for pt, pm in zip(v[0], v[1])) + "])"
        else:
            impl = "Err"
        return f"({cid}%nat, KPermuteList {mats_lit(As)} {qlists_lit(nas)} {ts} {impl})"
    (w, Bs, _) = ents[0]
    nbs = [col_norms(b) for b in Bs]
    impl = f"(Ok {out_lit(v[0][0], v[1][0])})" if st == "ok" else "Err"
    return (f"({cid}%nat, KPermute {mats_lit(As)} {mats_lit(Bs)} {C.q_list([float(x) for x in w])} "
            f"{qlists_lit(nas)} {qlists_lit(nbs)} {impl})")


def gen_permute(tier, rng):
    calls = []
    n = 60 if tier == "quick" else 240
    for k in range(n):
        r = 1 + k % (4 if tier == "quick" else 5)
        nm = rng.choice([2, 3]); hs = [rng.randint(2, 4) for _ in range(nm)]
        A = factor_set(rng, r, hs, generic=True)
        wref = np.array([rng.choice([0.5, 1.0, 2.0, 3.0]) for _ in range(r)])
        w = np.array([rng.choice([0.5, 1.0, 2.0, 3.0, -1.0]) for _ in range(r)])
        as_list = (k % 3 == 0)
        pick = (k // 3) % 2       # r = 1 + k % 4 and k = 3j: both positions occur with every rank
        extra = {}
        if as_list:     # the second tensor of the list: another equivalent copy with its own permutation and weights
            s2 = list(range(r)); rng.shuffle(s2)
            extra = dict(sigma_other=s2, Bs_other=equivalent_copy(A, s2, scalings(rng, r, nm, "signed")),
                         w_other=np.array([rng.choice([0.25, 1.5, 4.0, -2.0]) for _ in range(r)]))
        if (k // 2) % 3 != 2:
            sigma = list(range(r)); rng.shuffle(sigma)
            if r >= 3 and k % 5 == 0:
                sigma = list(range(1, r)) + [0]     # a full cycle: NOT an involution (sigma != sigma^-1), deterministic share
            B = equivalent_copy(A, sigma, scalings(rng, r, nm, "signed"))
            calls.append(dict(As=A, Bs=B, w=w, wref=wref, sigma=sigma, as_list=as_list, pick=pick, stream="equivalent", **extra))
        else:
            calls.append(dict(As=A, Bs=factor_set(rng, r, hs), w=w, wref=wref, as_list=as_list, pick=pick, stream="random", **extra))
    return calls



# ----------------------------------------------------------------------------- cp_permute_factors, full model (cp_copy / cp_normalize glue)
def np_cp_normalize(w, fs):
    """numpy re-statement of cp_normalize's arithmetic (weights absorbed into factor 0; zero norms replaced by 1):
    returns (the column norms it takes = the answer tape, the normalised factors)"""
    tape, out = [], []
    for i, f in enumerate(fs):
        f = np.asarray(f, dtype=np.float64)
        if i == 0:
            f = f * np.asarray(w, dtype=np.float64)
        sc = np.array(col_norms(f))
        tape.append([float(x) for x in sc])
        out.append(f / np.where(sc == 0, 1.0, sc).reshape(1, -1))
    return tape, out


def pt_lit(w, fs, nrm):
    tape, nf = np_cp_normalize(w, fs)
    compared = nf if nrm else fs
    return (f"(mkPT {C.q_list([float(x) for x in w])} {mats_lit(fs)} {qlists_lit(tape)} "
            f"{qlists_lit([col_norms(c) for c in compared])})")


def zero_weight_class(call):
    """the input class of the known finding: a zero weight in the reference, or in a tensor passed inside a LIST"""
    if np.any(np.asarray(call["wref"]) == 0):
        return True
    return bool(call.get("as_list")) and any(np.any(np.asarray(w) == 0) for (w, _, _) in permute_entries(call))


def pred_permute_full(call, out):
    st, v = out
    if st != "ok" and zero_weight_class(call):
        return [("C20_permute_zero_weight", f"a zero weight in the reference / in a listed tensor makes cp_permute_factors raise: {v}")]
    return pred_permute(call, out)


def emit_permute_full(cid, call, out):
    st, v = out
    ents = permute_entries(call)
    ref = pt_lit(call["wref"], call["As"], True)
    if call.get("as_list"):
        arg = "(PList [" + "; ".join(pt_lit(w, Bs, True) for (w, Bs, _) in ents) + "])"
    else:
        arg = f"(PSingle {pt_lit(ents[0][0], ents[0][1], False)})"
    if st == "ok" and v[0] is None:
        impl = "(Ok (@nil (list Q * list (mat Q) * list nat)))"
    elif st == "ok":
        impl = "(Ok [" + "; ".join(out_lit(pt, pm) for pt, pm in zip(v[0], v[1])) + "])"
    else:
        impl = "Err"
    return f"({cid}%nat, KPermuteFull {ref} {arg} {impl})"


def gen_permute_full(tier, rng):
    """weights of every sign, and ZERO weights in the tensor passed alone (accepted), in a listed tensor and in the reference
    (rejected: the absorbed weight gives a zero column)"""
    calls = []
    n = 36 if tier == "quick" else 120
    for k in range(n):
        r = 1 + k % 3 if tier == "quick" else 1 + k % 4
        nm = rng.choice([2, 3]); hs = [rng.randint(2, 3) for _ in range(nm)]
        A = factor_set(rng, r, hs, generic=True)
        wref = np.array([rng.choice([0.5, 1.0, 2.0, -3.0]) for _ in range(r)])
        w = np.array([rng.choice([0.5, 1.0, 2.0, 3.0, -1.0]) for _ in range(r)])
        kind = k % 6
        as_list = kind in (1, 3, 5)
        pick = (k // 6) % 2
        sigma = list(range(r)); rng.shuffle(sigma)
        B = equivalent_copy(A, sigma, scalings(rng, r, nm, "signed")) if k % 4 != 3 else factor_set(rng, r, hs)
        if k % 4 == 3:
            sigma = None
        extra = {}
        if as_list:
            s2 = list(range(r)); rng.shuffle(s2)
            extra = dict(sigma_other=s2, Bs_other=equivalent_copy(A, s2, scalings(rng, r, nm, "signed")),
                         w_other=np.array([rng.choice([0.25, 1.5, 4.0, -2.0]) for _ in range(r)]))
        stream = "weights"
        if kind in (2, 3):
            w = w.copy(); w[rng.randrange(r)] = 0.0; stream = "zero weight, " + ("listed" if as_list else "alone")
        if kind == 4:
            wref = wref.copy(); wref[rng.randrange(r)] = 0.0; stream = "zero weight, reference"
        calls.append(dict(As=A, Bs=B, w=w, wref=wref, sigma=sigma, as_list=as_list, pick=pick, stream=stream, **extra))
    return calls


# ----------------------------------------------------------------------------- correlation_index
def call_corridx(call):
    import tensorly as tl
    from tensorly.metrics.similarity import correlation_index
    f1 = [tl.tensor(a.copy()) for a in call["As"]]; f2 = [tl.tensor(b.copy()) for b in call["Bs"]]
    if call.get("tol") is not None:
        return C.call_impl(correlation_index, f1, f2, tol=call["tol"], method=call["method"])
    return C.call_impl(correlation_index, f1, f2, method=call["method"])


def ref_corridx_one(x1, x2):
    n1 = x1 / np.sqrt((x1 * x1).sum(axis=0)); n2 = x2 / np.sqrt((x2 * x2).sum(axis=0))
    c = np.abs(n1.T @ n2)
    r = c.shape[0]
    return float((np.abs(c.max(axis=1) - 1).sum() + np.abs(c.max(axis=0) - 1).sum()) / (2 * r))


def corr_tol(call):
    return 5e-16 if call.get("tol") is None else float(call["tol"])


def ref_corridx(call, raw=False):
    """definition incl. the threshold (every per-pair index below tol counts as 0); raw: the per-pair indices"""
    tol = corr_tol(call)
    if call["method"] == "stacked":
        s = [ref_corridx_one(np.concatenate(call["As"], 0), np.concatenate(call["Bs"], 0))]
    else:
        s = [ref_corridx_one(a, b) for a, b in zip(call["As"], call["Bs"])]
    if raw:
        return s
    s = [0.0 if x < tol else x for x in s]
    if call["method"] == "stacked":
        return s[0]
    return {"max_score": max(s), "min_score": min(s), "avg_score": sum(s) / len(s)}[call["method"]]


def threshold_ambiguous(call):
    """a raw per-pair index within 1e-7 of a positive tol: the strict comparison is undecidable under rounding -- except on the
    inputs constructed so that floating point is exact (exact_boundary)"""
    if call.get("exact_boundary") is not None:
        return False
    return any(corr_tol(call) > 1e-8 and abs(x - corr_tol(call)) < 1e-7 for x in ref_corridx(call, raw=True))


def pred_corridx(call, out):
    st, v = out
    if call.get("malformed"):
        return [] if st == "reject" else [("C20_rejects_malformed", f"malformed input ({call['malformed']}) was not rejected: {st} {str(v)[:80]}")]
    if st != "ok":
        return [("C20_corrindex_defined", f"valid input raised: {v}")]
    v = float(v)
    fails = []
    if not (0 <= v <= 1 + 1e-12):
        fails.append(("C20_corrindex_range", f"correlation index {v!r} outside [0, 1]"))
    if call.get("equivalent") and not (abs(v) <= 1e-12):
        fails.append(("C20_corrindex_zero", f"equivalent factor sets ({call['equivalent']}) have correlation index {v!r} != 0"))
    if call.get("exact_boundary") is not None and abs(v - call["exact_boundary"]) > 1e-12:
        fails.append(("C20_corrindex_def", f"raw index exactly {call['exact_boundary']} = tol: `score < tol` is false, the result must be "
                                           f"{call['exact_boundary']}, got {v!r}"))
    if threshold_ambiguous(call):
        return fails      # threshold decision ambiguous under rounding
    ref = ref_corridx(call)
    if abs(ref - v) > 1e-9:
        fails.append(("C20_corrindex_def", f"correlation index {v!r} differs from its definition {ref!r}"))
    return fails


def emit_corridx(cid, call, out):
    st, v = out
    As, Bs = call["As"], call["Bs"]
    if call["method"] == "stacked":
        try:
            n1 = [col_norms(np.concatenate(As, 0))]; n2 = [col_norms(np.concatenate(Bs, 0))]
        except ValueError:
            n1, n2 = [], []
    else:
        n1 = [col_norms(a) for a in As]; n2 = [col_norms(b) for b in Bs]
    impl = f"(Ok {C.q(float(v))})" if st == "ok" else "Err"
    return (f"({cid}%nat, KCorrIdx {METH_LIT[call['method']]} {C.q(corr_tol(call))} {mats_lit(As)} {mats_lit(Bs)} "
            f"{qlists_lit(n1)} {qlists_lit(n2)} {impl})")


def gen_corridx(tier, rng):
    calls = []
    maxr = 5
    n = 30 if tier == "quick" else 120
    for meth in METHODS:
        for k in range(n):
            r = 1 + k % maxr
            nm = rng.choice([1, 2, 3]); hs = [rng.randint(1, 5) for _ in range(nm)]
            A = factor_set(rng, r, hs)
            mode = k % 3
            tolv = [None, None, 0.0, 0.05, 0.3, 1.0][(k // 3) % 6]
            if mode == 0:
                calls.append(dict(As=A, Bs=factor_set(rng, r, hs), method=meth, tol=tolv, stream="random"))
            elif mode == 1:
                sigma = list(range(r)); rng.shuffle(sigma)
                kind = "common" if meth == "stacked" else "signed"
                B = equivalent_copy(A, sigma, scalings(rng, r, nm, kind))
                calls.append(dict(As=A, Bs=B, method=meth, equivalent=kind, sigma=sigma, tol=tolv, stream="equivalent"))
            else:
                sigma = list(range(r)); rng.shuffle(sigma)
                B = equivalent_copy(A, sigma, scalings(rng, r, nm, "common"))
                B = [b + np.array([[rng.randint(-2, 2) / 16 for _ in range(r)] for _ in range(b.shape[0])]) for b in B]
                if all(np.all(np.abs(b).sum(axis=0) > 0) for b in B):
                    calls.append(dict(As=A, Bs=B, method=meth, tol=tolv, stream="perturbed"))
    # (a') three modes, the LAST pair decides: max_score with modes 1-2 equivalent and mode 3 unrelated, min_score with modes 1-2
    #      unrelated and mode 3 equivalent, avg_score with only mode 3 unrelated (a reduction that drops a mode is wrong on these)
    for meth in ("max_score", "min_score", "avg_score"):
        for _ in range(3 if tier == "quick" else 8):
            r = rng.randint(2, 4); hs = [rng.randint(2, 5) for _ in range(3)]
            A = factor_set(rng, r, hs, generic=True)
            sigma = list(range(r)); rng.shuffle(sigma)
            B = equivalent_copy(A, sigma, scalings(rng, r, 3, "signed"))
            R_ = factor_set(rng, r, hs)
            if meth == "min_score":
                B = [R_[0], R_[1], B[2]]
            else:
                B = [B[0], B[1], R_[2]]
            calls.append(dict(As=A, Bs=B, method=meth, tol=None, stream="last-mode-decides"))
    # (b) the threshold met EXACTLY (floating point is exact on these inputs, so the strict `score < tol` is decidable):
    #     orthogonal supports -> every cosine is exactly 0, raw index exactly 1.0, tol = 1.0 -> the result is 1.0, not 0;
    #     unit vectors scaled by powers of two, half of them shared -> raw index exactly 0.5, tol = 0.5 -> 0.5
    for meth in METHODS:
        for r in ([1, 2, 4] if tier == "quick" else [1, 2, 4, 1, 2, 4]):
            nm = rng.choice([1, 2]); h = rng.randint(1, 2) + r
            A, B = [], []
            for _ in range(nm):
                a = np.zeros((2 * h, r)); b = np.zeros((2 * h, r))
                a[:h, :] = dyadic_matrix(rng, h, r); b[h:, :] = dyadic_matrix(rng, h, r)
                A.append(a); B.append(b)
            calls.append(dict(As=A, Bs=B, method=meth, tol=1.0, exact_boundary=1.0, stream="boundary"))
        for _ in range(1 if tier == "quick" else 3):
            nm = rng.choice([1, 2]); A, B = [], []
            for _ in range(nm):
                a = np.zeros((4, 2)); b = np.zeros((4, 2))
                pw = lambda: rng.choice([0.25, 0.5, 1.0, 2.0, 4.0]) * rng.choice([1, -1])
                a[0, 0] = pw(); a[1, 1] = pw(); b[0, 0] = pw(); b[2, 1] = pw()
                if rng.random() < 0.5:
                    a = a[:, ::-1].copy()
                A.append(a); B.append(b)
            if meth != "stacked" or nm == 1:
                calls.append(dict(As=A, Bs=B, method=meth, tol=0.5, exact_boundary=0.5, stream="boundary"))
    for k in range(24 if tier == "quick" else 64):
        r = rng.randint(1, 3); hs = [rng.randint(1, 3) for _ in range(2)]
        A = factor_set(rng, r, hs); B = factor_set(rng, r, hs)
        kind = ["method", "ranks", "shapes", "zero_column", "empty", "rank_between", "heights_swapped", "ranks_second"][k % 8]
        meth = rng.choice(METHODS)
        if kind == "method":
            meth = "bogus"
        elif kind == "empty":              # an empty factor list has no rank
            A, B = ([], B) if (k // 8) % 2 == 0 else (A, [])
        elif kind == "rank_between":       # each side of uniform rank, but the two ranks differ
            B = [dyadic_matrix(rng, h, r + 1) for h in hs]
        elif kind == "ranks_second":       # mixed rank inside factors_2
            B[0] = dyadic_matrix(rng, hs[0], r + 1)
        elif kind == "heights_swapped":    # same total height: accepted by "stacked", rejected by the per-mode methods
            hs = [2, 3]; A = factor_set(rng, r, hs); B = factor_set(rng, r, hs[::-1])
        elif kind == "ranks":
            A[1] = dyadic_matrix(rng, hs[1], r + 1)
        elif kind == "shapes":
            B = [dyadic_matrix(rng, h + 1, r) for h in hs]
        else:
            Z = A if (k // 8) % 2 == 0 else B
            Z[rng.randrange(2)][:, rng.randrange(r)] = 0.0
            if meth == "stacked":
                for b in Z:
                    b[:, 0] = 0.0
        if kind == "heights_swapped" and meth == "stacked":
            calls.append(dict(As=A, Bs=B, method=meth, tol=None, stream="heights_swapped_stacked"))     # a VALID request
        else:
            calls.append(dict(As=A, Bs=B, method=meth, malformed=kind, stream="malformed"))
    return calls


# ----------------------------------------------------------------------------- leverage_score_dist
def call_leverage(call):
    import tensorly as tl
    from tensorly.metrics.leverage_scores import leverage_score_dist
    return C.call_impl(leverage_score_dist, tl.tensor(call["M"].copy()))


def pred_leverage(call, out):
    st, v = out
    if call.get("malformed"):
        return [] if st == "reject" else [("C20_rejects_malformed", f"{call['malformed']}: no numerical rank, yet not rejected: {st} {str(v)[:80]}")]
    if st != "ok":
        return [("C20_leverage_defined", f"valid input raised: {v}")]
    v = np.asarray(v)
    M = call["M"].astype(np.float64)
    fails = []
    tolv = 1e-9 if call["M"].dtype == np.float64 else 1e-5
    if v.dtype != np.float64:
        fails.append(("C20_leverage_simplex", f"dtype {v.dtype} is not float64"))
    if v.shape != (M.shape[0],):
        return fails + [("C20_leverage_simplex", f"shape {v.shape}")]
    if not finite(v) or np.min(v) < -1e-15:
        fails.append(("C20_leverage_simplex", f"negative / non-finite leverage score {np.min(v)!r}"))
    # lower-precision input: the scores are renormalised in float64, so they sum to one to float64 accuracy
    if abs(float(np.sum(v)) - 1) > (tolv if call["M"].dtype == np.float64 else 1e-12):
        fails.append(("C20_leverage_simplex", f"leverage scores sum to {float(np.sum(v))!r} != 1"))
    if call.get("stream") == "near_cutoff":
        # the generator placed the second singular value a factor 1.3 away from both candidate cut-offs: under the documented
        # rule max(S) * max(shape) * eps the numerical rank is 1 and the scores are the squared entries of the first left
        # singular vector
        U1 = np.linalg.svd(M, full_matrices=False)[0][:, 0]
        if np.max(np.abs(U1 ** 2 - v)) > 1e-8:
            fails.append(("C20_leverage_def", "second singular value below max(S) * max(shape) * eps, yet the scores are not those of "
                                              "numerical rank 1 (squared first left singular vector)"))
        return fails
    k = np.linalg.matrix_rank(M)
    proj = M @ np.linalg.pinv(M)
    if k > 0 and np.max(np.abs(np.diag(proj) / k - v)) > (1e-8 if call["M"].dtype == np.float64 else 1e-4):
        fails.append(("C20_leverage_def", "leverage scores differ from diag(M pinv(M)) / rank"))
    return fails


def emit_leverage(cid, call, out):
    import tensorly as tl
    st, v = out
    M = call["M"]
    U, S, Vt = tl.svd(tl.tensor(M.copy()), full_matrices=False)
    low = M.dtype != np.float64          # lower precision: cast to float64 + renormalisation branch, looser tape tolerance
    impl = f"(Ok {C.q_list([float(x) for x in np.asarray(v).ravel()])})" if st == "ok" else "Err"
    return (f"({cid}%nat, KLev {C.boolc(low)} {C.q(2e-5 if low else 1e-9)} {mat_lit(M)} {mat_lit(np.asarray(U))} {mat_lit(np.asarray(Vt))} "
            f"{C.q_list([float(x) for x in np.asarray(S).ravel()])} {C.q(float(np.finfo(M.dtype).eps))} {impl})")


def gen_leverage(tier, rng):
    calls = []
    for k in range(40 if tier == "quick" else 300):
        nr, nc = rng.randint(1, 6), rng.randint(1, 5)
        M = dyadic_matrix(rng, nr, nc)
        if k % 5 == 4 and nc >= 2:
            M[:, nc - 1] = 2 * M[:, 0]      # exactly rank deficient
        dt = np.float32 if k % 7 == 6 else np.float64
        calls.append(dict(M=M.astype(dt), stream="float32" if dt == np.float32 else ("deficient" if k % 5 == 4 and nc >= 2 else "random")))
    # the zero matrix has no singular value above the cut-off: no numerical rank, the call must fail
    for nr, nc in ([(1, 1), (3, 2)] if tier == "quick" else [(1, 1), (3, 2), (2, 4), (5, 5)]):
        calls.append(dict(M=np.zeros((nr, nc)), malformed="zero matrix", stream="zero"))
    # a second singular value BETWEEN min(shape) * eps * s_max and max(shape) * eps * s_max (tall or wide matrix): the numerical
    # rank is 1 under the documented cut-off max(S) * max(shape) * eps
    import tensorly as tl
    want = 6 if tier == "quick" else 24
    got = 0
    for _ in range(400):
        if got >= want:
            break
        n = rng.randint(4, 8); k2 = rng.randint(44, 52); c = rng.choice([1.0, 2.0, 0.5, 3.0])
        M = np.full((n, 2), c); M[rng.randrange(n), 1] = c * (1 + 2.0 ** (-k2))
        if got % 3 == 2:       # wide: there U is 2 x 2 and both candidate ranks give the same scores; tall: they differ
            M = M.T.copy()
        S = np.asarray(tl.svd(tl.tensor(M.copy()), full_matrices=False)[1])
        lo = S[0] * min(M.shape) * EPS64; hi = S[0] * max(M.shape) * EPS64
        if 1.3 * lo < S[1] < hi / 1.3:
            calls.append(dict(M=M, stream="near_cutoff")); got += 1
    return calls


# ----------------------------------------------------------------------------- regression metrics
def call_reg(call):
    import tensorly as tl
    from tensorly.metrics import regression as R
    fn = getattr(R, call["fn"])
    yt = tl.tensor(call["yt"].copy()); yp = tl.tensor(call["yp"].copy())
    ax = call["axis"]
    if call["fn"] == "R2_score":
        return C.call_impl(fn, yt, yp)
    if call["fn"] in ("variance", "standard_deviation"):
        return C.call_impl(fn, yt, axis=ax) if ax is not None else C.call_impl(fn, yt)
    return C.call_impl(fn, yt, yp, axis=ax) if ax is not None else C.call_impl(fn, yt, yp)


def frac_arr(a):
    out = np.empty(a.shape, dtype=object)
    for idx in np.ndindex(*a.shape):
        out[idx] = Fraction(float(a[idx]))
    return out


def fmean(a, ax):
    if ax is None:
        return np.array(sum(a.ravel().tolist(), Fraction(0)) / a.size, dtype=object)
    return a.sum(axis=ax) / Fraction(a.shape[ax])


def fsumax(a, ax):
    if ax is None:
        return np.array(sum(a.ravel().tolist(), Fraction(0)), dtype=object)
    return a.sum(axis=ax)


def fcenter(a, ax):
    m = fmean(a, ax)
    return a - (m if ax is None else np.expand_dims(m, ax))


def pred_reg(call, out):
    st, v = out
    name, ax = call["fn"], call["axis"]
    yt, yp = frac_arr(call["yt"]), frac_arr(call["yp"])
    if isinstance(ax, tuple):
        return pred_reg_tuple(call, out, yt, yp)
    if ax is not None and not (-yt.ndim <= ax < yt.ndim):
        return [] if st == "reject" else [("C20_rejects_malformed", f"{name}: axis {ax} out of range was not rejected")]
    if st != "ok":
        return [(f"C20_{name}_defined", f"valid input raised: {v}")]
    v = np.asarray(v, dtype=np.float64)
    if not finite(v):
        return []   # 0/0 on a constant slice: outside the property (counted as skipped by the caller)
    fails = []

    def cmp(expected, got, what, sq=False, tolr=1e-9):
        e = np.asarray(expected, dtype=object)
        if e.shape != got.shape:
            fails.append((f"C20_{name}_def", f"{name}: shape {got.shape}, definition gives {e.shape}")); return
        for idx in np.ndindex(*e.shape) if e.shape else [()]:
            g = float(got[idx]); ex = float(e[idx])
            g2 = g * g if sq else g
            if abs(g2 - ex) > tolr * (1 + abs(ex)):
                fails.append((f"C20_{name}_def", f"{name}{'^2' if sq else ''} = {g2!r} at {idx}, definition gives {ex!r}")); return
    if name in ("MSE", "RMSE"):
        e = fmean((yt - yp) ** 2, ax)
        cmp(e, v, name, sq=(name == "RMSE"))
        if np.min(v) < 0:
            fails.append((f"C20_{name}_def", f"{name} negative"))
    elif name == "R2_score":
        e = 1 - fsumax((yp - yt) ** 2, None) / fsumax(yt ** 2, None)
        cmp(e, v, name)
        if float(v) > 1 + 1e-12:
            fails.append(("C20_R2_le_1", f"R2 = {float(v)!r} > 1"))
    elif name in ("covariance", "variance", "standard_deviation"):
        b = yt if name != "covariance" else yp
        e = fmean(fcenter(yt, ax) * fcenter(b, ax), ax)
        cmp(e, v, name, sq=(name == "standard_deviation"))
        if name != "covariance" and np.min(v) < 0:
            fails.append((f"C20_{name}_def", f"{name} negative"))
    else:
        if name == "correlation":
            num = fmean(fcenter(yt, ax) * fcenter(yp, ax), ax)
            den = fmean(fcenter(yt, ax) ** 2, ax) * fmean(fcenter(yp, ax) ** 2, ax)
        else:
            num = fsumax(yt * yp, ax); den = fsumax(yt ** 2, ax) * fsumax(yp ** 2, ax)
        num = np.asarray(num, dtype=object); den = np.asarray(den, dtype=object)
        if num.shape != v.shape:
            return [(f"C20_{name}_def", f"{name}: shape {v.shape}, definition gives {num.shape}")]
        for idx in np.ndindex(*num.shape) if num.shape else [()]:
            g = float(v[idx]); n_, d_ = float(num[idx]), float(den[idx])
            if abs(g) > 1 + 1e-9:
                fails.append(("C20_correlation_range", f"{name} = {g!r} outside [-1, 1]")); break
            if d_ > 0 and abs(g - n_ / math.sqrt(d_)) > 1e-9:
                fails.append((f"C20_{name}_def", f"{name} = {g!r} at {idx}, definition gives {n_ / math.sqrt(d_)!r}")); break
    return fails


def tuple_axes_norm(ax, nd):
    """normalised axes of a legal tuple, else None (an entry out of range, or an axis named twice)"""
    if any(not (-nd <= a < nd) for a in ax):
        return None
    n = [a % nd for a in ax]
    return n if len(set(n)) == len(n) else None


def pred_reg_tuple(call, out, yt, yp):
    st, v = out
    name, ax = call["fn"], call["axis"]
    if name not in ("MSE", "RMSE", "reflective_correlation_coefficient"):
        # covariance / variance / standard_deviation / correlation build the keepdims shape with `shape[axis] = 1`
        return [] if st == "reject" else [("C20_rejects_malformed", f"{name}: a tuple axis {ax} cannot index the keepdims shape, yet the call returned")]
    axs = tuple_axes_norm(ax, yt.ndim)
    if axs is None:
        return [] if st == "reject" else [("C20_rejects_malformed", f"{name}: illegal tuple axis {ax} was not rejected")]
    if st != "ok":
        return [(f"C20_{name}_defined", f"valid tuple axis {ax} raised: {v}")]
    v = np.asarray(v, dtype=np.float64)
    if not finite(v):
        return []
    cnt = 1
    for a in axs:
        cnt *= yt.shape[a]
    red = lambda a: np.asarray(a.sum(axis=tuple(axs)) if axs else a, dtype=object)
    fails = []
    if name in ("MSE", "RMSE"):
        e = np.asarray(red((yt - yp) ** 2) / Fraction(cnt), dtype=object)
        if e.shape != v.shape:
            return [(f"C20_{name}_def", f"{name} axis={ax}: shape {v.shape}, definition gives {e.shape}")]
        for idx in np.ndindex(*e.shape) if e.shape else [()]:
            g = float(v[idx]); g2 = g * g if name == "RMSE" else g
            if abs(g2 - float(e[idx])) > 1e-9 * (1 + abs(float(e[idx]))) or g < 0:
                fails.append((f"C20_{name}_def", f"{name} axis={ax} at {idx}: {g!r}, definition gives {float(e[idx])!r}")); break
    else:
        num, den = np.asarray(red(yt * yp), dtype=object), np.asarray(red(yt ** 2) * red(yp ** 2), dtype=object)
        if num.shape != v.shape:
            return [(f"C20_{name}_def", f"{name} axis={ax}: shape {v.shape}, definition gives {num.shape}")]
        for idx in np.ndindex(*num.shape) if num.shape else [()]:
            g, n_, d_ = float(v[idx]), float(num[idx]), float(den[idx])
            if abs(g) > 1 + 1e-9 or (d_ > 0 and abs(g - n_ / math.sqrt(d_)) > 1e-9):
                fails.append((f"C20_{name}_def", f"{name} axis={ax} at {idx}: {g!r}, definition gives {n_ / math.sqrt(d_) if d_ > 0 else None!r}")); break
    return fails


def is_pow2(n):
    return n >= 1 and (n & (n - 1)) == 0


def emit_reg(cid, call, out):
    st, v = out
    which = REG.index(call["fn"])
    ax = call["axis"]
    yt, yp = call["yt"], call["yp"]
    if isinstance(ax, tuple):
        axs = tuple_axes_norm(ax, yt.ndim)
        cnt = int(np.prod([yt.shape[a] for a in axs])) if axs is not None else 0
        zs = "[" + "; ".join(C.z(int(a)) for a in ax) + "]" if ax else "(@nil Z)"
        impl = f"(Ok {tensor_lit(np.asarray(v))})" if st == "ok" else "Err"
        return (f"({cid}%nat, KRegT {which}%nat {zs} {tensor_lit(yt)} {tensor_lit(yp)} {C.boolc(which == 0 and is_pow2(cnt))} {impl})")
    redlen = yt.size if ax is None else (yt.shape[ax] if -yt.ndim <= ax < yt.ndim else 1)
    exact = which in (0, 3, 4) and is_pow2(redlen)
    impl = f"(Ok {tensor_lit(np.asarray(v))})" if st == "ok" else "Err"
    st_src, val_src = SRC_FORMS.get(call["fn"], ("unsupported", "not translated"))
    src = f"(Some {val_src})" if st_src == "ok" and (SRC_EVERY <= 1 or cid % SRC_EVERY == 0) else "None"
    return (f"({cid}%nat, KReg {which}%nat {C.opt(ax, C.z)} {tensor_lit(yt)} {tensor_lit(yp)} {C.boolc(exact)} {impl} {src})")


def gen_reg(tier, rng):
    calls = []
    dims = [1, 2, 3, 4, 5, 8]
    # 2-D and 3-D shapes with coinciding and with pairwise different sizes (a mis-placed keepdims axis broadcasts silently
    # only when sizes coincide, and raises otherwise)
    shapes = ([(d,) for d in dims] + [(a, b) for a in (1, 2, 3, 4) for b in (2, 3, 4, 8)] +
              [(2, 3, 2), (2, 2, 4), (3, 1, 2), (4, 2, 2), (2, 2, 2), (3, 3, 3), (3, 4, 4), (4, 4, 3), (2, 3, 4), (2, 2, 2, 2), (2, 3, 3, 2)])
    if tier == "thorough":
        shapes += [tuple(rng.choice(dims) for _ in range(rng.randint(1, 4))) for _ in range(30)]
    for s in shapes:
        for name in REG:
            # None, EVERY legal axis -ndim .. ndim-1, and the two nearest illegal ones
            axes = [None] if name == "R2_score" else [None] + list(range(-len(s) - 1, len(s) + 1))
            for ax in axes:
                reps = 1 if (tier == "quick" or (ax is not None and ax < 0)) else 2
                for _ in range(reps):
                    yt = np.array([rng.randint(-32, 32) / 8 for _ in range(int(np.prod(s)))], dtype=np.float64).reshape(s)
                    yp = np.array([rng.randint(-32, 32) / 8 for _ in range(int(np.prod(s)))], dtype=np.float64).reshape(s)
                    if name == "R2_score" and not np.any(yt):
                        yt.flat[0] = 1.0
                    calls.append(dict(fn=name, yt=yt, yp=yp, axis=ax, stream=name))
    # axis given as a TUPLE: accepted by MSE / RMSE / reflective correlation for distinct legal axes (any order, negative
    # entries, the empty tuple), rejected otherwise; the covariance family rejects every tuple
    tshapes = [(3,), (2, 3), (2, 2), (2, 3, 2)] + ([(4,), (3, 2), (2, 2, 4), (2, 2, 2, 2), (3, 2, 2, 2)] if tier == "thorough" else [])
    for sh in tshapes:
        nd = len(sh)
        tups = [(), (0,), (-1,), tuple(range(nd)), tuple(range(nd - 1, -1, -1)), (0, 0), (0, -nd), (nd,), (0, -nd - 1)]
        if nd >= 2:
            tups += [(0, -1), (-1, -2), (1, -1)]
        if nd >= 3:
            tups += [(0, 2), (2, 0), (-2, 0), (1, 2)]
        if nd >= 4:
            tups += [(3, 1), (0, 1, 3), (-1, 0, -2)]
        for name in REG:
            if name == "R2_score":
                continue
            for tp in dict.fromkeys(tups):
                yt = np.array([rng.randint(-32, 32) / 8 for _ in range(int(np.prod(sh)))], dtype=np.float64).reshape(sh)
                yp = np.array([rng.randint(-32, 32) / 8 for _ in range(int(np.prod(sh)))], dtype=np.float64).reshape(sh)
                calls.append(dict(fn=name, yt=yt, yp=yp, axis=tp, stream=name + "-tuple"))
    return calls


# ----------------------------------------------------------------------------- source tie (regression.py -> rexp)
# ast -> term of Corr.C20.rexp: symbolic execution of the straight-line code of tensorly/metrics/regression.py in the CURRENT
# working tree (with the one `if axis is not None:` keepdims-reshape idiom).  Anything else raises Unsupported, which is
# reported in the evidence and never a verdict.
import ast as _ast_mod
ast = _ast_mod
import copy
import os


class Unsupported(Exception):
    pass


class KeepShape:      # list(T.shape(x)) with shape[axis] = 1 applied or not
    def __init__(self, one=False):
        self.one = one


def _is_axis(node):
    return isinstance(node, ast.Name) and node.id == "axis"


def _call_name(node):
    f = node.func
    if isinstance(f, ast.Attribute) and isinstance(f.value, ast.Name) and f.value.id in ("T", "tl"):
        return "T." + f.attr
    if isinstance(f, ast.Name):
        return f.id
    raise Unsupported("call " + ast.dump(f)[:60])


class Translator:
    def __init__(self, source):
        self.funcs = {n.name: n for n in ast.parse(source).body if isinstance(n, ast.FunctionDef)}

    def axis_arg(self, call, pos):
        """the reduction must be over `axis` (keyword or positional), or over everything when the function has no axis"""
        for kw in call.keywords:
            if kw.arg == "axis":
                if _is_axis(kw.value):
                    return True
                raise Unsupported("axis=" + ast.dump(kw.value)[:40])
            raise Unsupported("keyword " + str(kw.arg))
        if len(call.args) > pos:
            if _is_axis(call.args[pos]):
                return True
            raise Unsupported("positional axis " + ast.dump(call.args[pos])[:40])
        return False

    def expr(self, node, env, has_axis):
        if isinstance(node, ast.Name):
            if node.id in env:
                return env[node.id]
            raise Unsupported("name " + node.id)
        if isinstance(node, ast.Constant):
            if node.value == 1:
                return ("ROne",)
            raise Unsupported("constant " + repr(node.value))
        if isinstance(node, ast.BinOp):
            if isinstance(node.op, ast.Pow):
                if isinstance(node.right, ast.Constant) and node.right.value in (2, 2.0):
                    base = node.left
                    if isinstance(base, ast.Call) and _call_name(base) == "T.norm" and len(base.args) == 1 and not base.keywords:
                        return ("RNormSq", self.expr(base.args[0], env, has_axis))
                    return ("RSq", self.expr(base, env, has_axis))
                raise Unsupported("power")
            op = {ast.Sub: "RSub", ast.Mult: "RMul", ast.Div: "RDiv"}.get(type(node.op))
            if op is None:
                raise Unsupported("operator " + type(node.op).__name__)
            return (op, self.expr(node.left, env, has_axis), self.expr(node.right, env, has_axis))
        if isinstance(node, ast.Call):
            name = _call_name(node)
            if name in ("T.mean", "T.sum"):
                used = self.axis_arg(node, 1) and has_axis      # `axis` denotes the caller's axis only if it was forwarded
                base = "RMean" if name == "T.mean" else "RSum"
                return (base if used else base + "All", self.expr(node.args[0], env, has_axis))
            if name == "T.sqrt":
                return ("SQRT", self.expr(node.args[0], env, has_axis))
            if name == "T.reshape":
                shp = node.args[1]
                if isinstance(shp, ast.Name) and isinstance(env.get(shp.id), KeepShape) and env[shp.id].one:
                    inner = self.expr(node.args[0], env, has_axis)
                    if inner[0] not in ("RMean", "RSum") or not has_axis:
                        raise Unsupported("reshape of a non-reduced tensor")
                    return ("RKeep", inner)
                raise Unsupported("reshape")
            if name in self.funcs:
                return self.inline(name, node, env, has_axis)
            raise Unsupported("call " + name)
        raise Unsupported(type(node).__name__)

    def inline(self, name, call, env, has_axis):
        fn = self.funcs[name]
        params = [a.arg for a in fn.args.args]
        callee_axis = "axis" in params
        tparams = [p for p in params if p != "axis"]
        if len(call.args) < len(tparams):
            raise Unsupported("call arity")
        new_env = {p: self.expr(a, env, has_axis) for p, a in zip(tparams, call.args)}
        rest = call.args[len(tparams):]
        passed = any(kw.arg == "axis" and _is_axis(kw.value) for kw in call.keywords) or (len(rest) == 1 and _is_axis(rest[0]))
        if any(kw.arg != "axis" for kw in call.keywords) or len(rest) > 1:
            raise Unsupported("call arguments")
        return self.body(fn, new_env, callee_axis and passed and has_axis)

    def body(self, fn, env, has_axis):
        env = dict(env)
        stmts = [s for s in fn.body if not (isinstance(s, ast.Expr) and isinstance(s.value, ast.Constant))]   # docstring
        for st in stmts:
            if isinstance(st, ast.Return):
                return self.expr(st.value, env, has_axis)
            self.stmt(st, env, has_axis)
        raise Unsupported("no return")

    def stmt(self, st, env, has_axis):
        if isinstance(st, ast.Assign) and len(st.targets) == 1:
            tgt = st.targets[0]
            if isinstance(tgt, ast.Name):
                v = st.value
                if (isinstance(v, ast.Call) and isinstance(v.func, ast.Name) and v.func.id == "list" and len(v.args) == 1
                        and isinstance(v.args[0], ast.Call) and _call_name(v.args[0]) == "T.shape"):
                    env[tgt.id] = KeepShape(False)
                else:
                    env[tgt.id] = self.expr(v, env, has_axis)
                return
            if (isinstance(tgt, ast.Subscript) and isinstance(tgt.value, ast.Name) and isinstance(env.get(tgt.value.id), KeepShape)
                    and _is_axis(tgt.slice) and isinstance(st.value, ast.Constant) and st.value.value == 1):
                env[tgt.value.id] = KeepShape(True)
                return
            raise Unsupported("assignment")
        if isinstance(st, ast.If):
            t = st.test
            if (isinstance(t, ast.Compare) and _is_axis(t.left) and len(t.ops) == 1 and isinstance(t.ops[0], ast.IsNot)
                    and isinstance(t.comparators[0], ast.Constant) and t.comparators[0].value is None and not st.orelse):
                # the block may only re-bind names to their keepdims reshape: with axis=None broadcasting a 0-d mean is the
                # same thing, which is what RKeep denotes
                for s2 in st.body:
                    self.stmt(s2, env, has_axis)
                return
            raise Unsupported("if")
        raise Unsupported(type(st).__name__)

    def function(self, name):
        fn = self.funcs[name]
        params = [a.arg for a in fn.args.args]
        targs = [p for p in params if p != "axis"]
        env = {p: ("RArg", k) for k, p in enumerate(targs)}
        e = self.body(fn, env, "axis" in params)
        return self.form(e)

    def form(self, e):
        def has_sqrt(x):
            return isinstance(x, tuple) and (x[0] == "SQRT" or any(has_sqrt(y) for y in x[1:]))
        if e[0] == "SQRT" and not has_sqrt(e[1]):
            return ("RSqrt", e[1])
        if e[0] == "RDiv" and e[2][0] == "SQRT" and not has_sqrt(e[1]) and not has_sqrt(e[2][1]):
            return ("RRatio", e[1], e[2][1])
        if not has_sqrt(e):
            return ("RPlain", e)
        raise Unsupported("sqrt in an unexpected position")


def lit(e):
    if e[0] == "RArg":
        return f"(RArg {e[1]}%nat)"
    if e[0] == "ROne":
        return "ROne"
    return "(" + e[0] + " " + " ".join(lit(x) for x in e[1:]) + ")"


def translate_all(repo, names):
    src = open(os.path.join(repo, "tensorly", "metrics", "regression.py")).read()
    tr = Translator(src)
    out = {}
    for n in names:
        try:
            out[n] = ("ok", lit(tr.function(n)))
        except Unsupported as ex:
            out[n] = ("unsupported", str(ex))
        except Exception as ex:          # never a verdict
            out[n] = ("unsupported", f"{type(ex).__name__}: {ex}")
    return out



SRC_EVERY = 1       # the sampled source comparison runs on every SRC_EVERY-th regression case (thorough: 3)
SRC_FORMS = {}      # function name -> ("ok", rform literal) | ("unsupported", reason); filled by run()

TIE_GOALS = {
    "MSE": "forall ax yt yp, rev ax [yt; yp] E = MSE Qops ax yt yp",
    "RMSE": "forall (sq : Q -> Q) ax yt yp, rev ax [yt; yp] E = MSE Qops ax yt yp /\\ RMSE Qops sq ax yt yp = tmap sq (rev ax [yt; yp] E)",
    "R2_score": "forall ax yt yp, rev ax [yt; yp] E = mk [] [R2_score Qops yt yp]",
    "covariance": "forall ax yt yp, rev ax [yt; yp] E = covariance Qops ax yt yp",
    "variance": "forall ax y, rev ax [y] E = variance Qops ax y",
    "correlation": "forall (sq : Q -> Q) ax yt yp, rev ax [yt; yp] N = fst (corr_parts Qops ax yt yp) /\\ rev ax [yt; yp] D = snd (corr_parts Qops ax yt yp) /\\ correlation Qops sq ax yt yp = tzip Qops (fdiv Qops) (rev ax [yt; yp] N) (tmap sq (rev ax [yt; yp] D))",
    "reflective_correlation_coefficient": "forall (sq : Q -> Q) ax yt yp, rev ax [yt; yp] N = fst (refl_parts Qops ax yt yp) /\\ rev ax [yt; yp] D = snd (refl_parts Qops ax yt yp) /\\ reflective_correlation Qops sq ax yt yp = tzip Qops (fdiv Qops) (rev ax [yt; yp] N) (tmap sq (rev ax [yt; yp] D))",
    "standard_deviation": "forall (sq : Q -> Q) ax y, rev ax [y] E = variance Qops ax y /\\ standard_deviation Qops sq ax y = tmap sq (rev ax [y] E)",
}


def prove_source_tie(forms):
    """for every translated function try to PROVE (by conversion, all inputs) that the translated source equals the
    hand-written model; -> {name: 'proved-by-conversion' | 'not-convertible (sampled comparison only)' | 'unsupported: ..'}"""
    import subprocess, shutil
    d = os.path.join(C.BUILD, "cases", "C20", f"tie_{os.getpid()}")
    shutil.rmtree(d, ignore_errors=True); os.makedirs(d, exist_ok=True)
    procs, res = [], {}
    for name, (st, val) in forms.items():
        if st != "ok":
            res[name] = "unsupported: " + val; continue
        inner = val[1:-1].strip()                      # "RPlain e" | "RSqrt e" | "RRatio n d"
        head, rest = inner.split(" ", 1)
        defs = ""
        if head == "RRatio":
            depth, cut = 0, None
            for i, ch in enumerate(rest):
                depth += ch == "("; depth -= ch == ")"
                if depth == 0 and ch == ")":
                    cut = i + 1; break
            defs = f"Definition N : rexp := {rest[:cut]}.\nDefinition D : rexp := {rest[cut:].strip()}.\n"
        else:
            defs = f"Definition E : rexp := {rest}.\n"
        fn = os.path.join(d, f"Tie_{name}.v")
        with open(fn, "w") as f:
            f.write(HEADER.replace("Base.Tensor", "Base.Tensor Base.Ops") + "\n" + defs +
                    f"Lemma tie : {TIE_GOALS[name]}.\nProof. intros. repeat split; reflexivity. Qed.\n")
        procs.append((name, subprocess.Popen(["timeout", "300", "coqc", "-w", "none", "-R", os.path.join(C.COQ, "theories"), "TLV", fn],
                                             stdout=subprocess.PIPE, stderr=subprocess.PIPE, text=True, cwd=d)))
    for name, pr in procs:
        out, err = pr.communicate()
        res[name] = "proved-by-conversion (all inputs)" if pr.returncode == 0 else "not-convertible (sampled comparison only)"
    shutil.rmtree(d, ignore_errors=True)
    return res


# ----------------------------------------------------------------------------- source tie (factors / similarity / leverage)
# A small symbolic executor per function: every statement of the CURRENT source must match one of the known statement forms
# (structural ast patterns with holes); what the statements decide is collected into a closed Gallina record of
# Model/MetricsSrc.v.  Anything else raises Untranslatable -> the tie is reported BROKEN (fail closed).
class Untranslatable(Exception):
    pass


def _strip(node):
    """ast.dump without positions / contexts"""
    return ast.dump(node, annotate_fields=True, include_attributes=False).replace("ctx=Load()", "").replace("ctx=Store()", "")


def pmatch(node, pat, env):
    """structural match of `node` against pattern ast `pat`; Names starting with '_' are holes (bound consistently)"""
    if isinstance(pat, ast.Name) and pat.id.startswith("_"):
        if pat.id in env:
            return _strip(env[pat.id]) == _strip(node)
        env[pat.id] = node
        return True
    if isinstance(pat, ast.Name) and pat.id in ("T", "tl"):       # the backend alias
        return isinstance(node, ast.Name) and node.id in ("T", "tl")
    if type(node) is not type(pat):
        return False
    # operand order that cannot matter: `a or b`, `a == b`, `a != b`, and + / * (numbers; the one list concatenation in the
    # patterns feeds np.unique, which ignores order)
    if isinstance(pat, ast.BoolOp) and type(node.op) is type(pat.op) and len(node.values) == len(pat.values) == 2:
        return _either(env, lambda e: pmatch(node.values[0], pat.values[0], e) and pmatch(node.values[1], pat.values[1], e),
                       lambda e: pmatch(node.values[1], pat.values[0], e) and pmatch(node.values[0], pat.values[1], e))
    if (isinstance(pat, ast.Compare) and len(pat.ops) == 1 and len(node.ops) == 1 and type(node.ops[0]) is type(pat.ops[0])
            and isinstance(pat.ops[0], (ast.Eq, ast.NotEq))):
        return _either(env, lambda e: pmatch(node.left, pat.left, e) and pmatch(node.comparators[0], pat.comparators[0], e),
                       lambda e: pmatch(node.comparators[0], pat.left, e) and pmatch(node.left, pat.comparators[0], e))
    if isinstance(pat, ast.BinOp) and type(node.op) is type(pat.op) and isinstance(pat.op, (ast.Add, ast.Mult)):
        return _either(env, lambda e: pmatch(node.left, pat.left, e) and pmatch(node.right, pat.right, e),
                       lambda e: pmatch(node.right, pat.left, e) and pmatch(node.left, pat.right, e))
    for f in pat._fields:
        if f in ("ctx", "type_comment", "kind"):
            continue
        a, b = getattr(node, f, None), getattr(pat, f, None)
        if isinstance(b, list):
            if not isinstance(a, list) or len(a) != len(b) or not all(pmatch(x, y, env) for x, y in zip(a, b)):
                return False
        elif isinstance(b, ast.AST):
            if not isinstance(a, ast.AST) or not pmatch(a, b, env):
                return False
        elif a != b:
            return False
    return True


def _either(env, first, second):
    """try two ways of matching; the bindings of a failed attempt are discarded"""
    for alt in (first, second):
        e = dict(env)
        if alt(e):
            env.clear(); env.update(e)
            return True
    return False


# ---- harmless rewrites the executors follow instead of rejecting: (a) a temporary that names a pure expression
# (`n1 = T.norm(mat1, axis=0)`), (b) a module-level helper whose body is a single `return <expression>` -- both are inlined
# into the statements that use them BEFORE the patterns are tried, only when a statement did not match as written, and only
# while no variable the expression reads has been assigned since (otherwise: Untranslatable, fail closed).
_PURE_CALLS = {"len", "abs", "zip", "dict", "range", "list", "tuple", "min", "max", "sum"}


def _pure(n, helpers):
    if isinstance(n, (ast.Name, ast.Constant)):
        return True
    if isinstance(n, ast.Attribute):
        return _pure(n.value, helpers)
    if isinstance(n, ast.Call):
        f = n.func
        ok = ((isinstance(f, ast.Attribute) and isinstance(f.value, ast.Name) and f.value.id in ("T", "tl", "np")) or
              (isinstance(f, ast.Name) and (f.id in _PURE_CALLS or f.id in helpers)))
        return ok and all(_pure(a, helpers) for a in n.args) and all(_pure(k.value, helpers) for k in n.keywords)
    if isinstance(n, (ast.BinOp,)):
        return _pure(n.left, helpers) and _pure(n.right, helpers)
    if isinstance(n, ast.UnaryOp):
        return _pure(n.operand, helpers)
    if isinstance(n, ast.Compare):
        return _pure(n.left, helpers) and all(_pure(c, helpers) for c in n.comparators)
    if isinstance(n, ast.Subscript):
        return _pure(n.value, helpers) and _pure(n.slice, helpers)
    if isinstance(n, ast.Tuple):
        return all(_pure(e, helpers) for e in n.elts)
    return False


class _Subst(ast.NodeTransformer):
    def __init__(self, mapping, helpers, owner):
        self.m, self.h, self.o = mapping, helpers, owner

    def visit_Name(self, n):
        if isinstance(n.ctx, ast.Load) and n.id in self.m:
            v = self.m[n.id]
            if v is None:
                raise Untranslatable(f"temporary {n.id} used after a variable it reads was assigned")
            if self.o is not None:
                self.o.used = True
            return copy.deepcopy(v)
        return n

    def visit_Call(self, n):
        n = self.generic_visit(n)
        if isinstance(n.func, ast.Name) and n.func.id in self.h and not n.keywords:
            params, body = self.h[n.func.id]
            if len(params) == len(n.args):
                if self.o is not None:
                    self.o.used = True
                return _Subst(dict(zip(params, n.args)), {}, None).visit(copy.deepcopy(body))
        return n


def _helpers(funcs, exclude):
    """module-level functions `def f(a, b): return <pure expression>`"""
    out = {}
    for name, fn in funcs.items():
        b = _body(fn)
        if name in exclude or len(b) != 1 or not isinstance(b[0], ast.Return) or b[0].value is None:
            continue
        if fn.args.vararg or fn.args.kwarg or fn.args.kwonlyargs or fn.args.defaults:
            continue
        out[name] = ([a.arg for a in fn.args.args], b[0].value)
    return {k: v for k, v in out.items() if _pure(v[1], out)}


class Temps:
    """walk(stmts) yields every statement with the known temporaries / helpers inlined; a statement no pattern matched goes to
    unmatched(): a temporary definition is remembered, anything else is Untranslatable"""
    def __init__(self, helpers=None, protected=()):
        self.t, self.reads, self.h, self.protected, self.used, self.seen = {}, {}, dict(helpers or {}), set(protected), False, set()

    def _sub(self, s):
        if not self.t and not self.h:
            return s
        return ast.fix_missing_locations(_Subst(self.t, self.h, self).visit(copy.deepcopy(s)))

    def walk(self, stmts):
        for s in stmts:
            if isinstance(s, (ast.For, ast.While, ast.If, ast.With, ast.Try)):
                # a compound statement that assigns a variable a temporary reads (or the temporary itself): the value at the use
                # inside it need not be the value at the definition -> the temporary is no longer inlined (use = Untranslatable)
                inner = {n.id for n in ast.walk(s) if isinstance(n, ast.Name) and isinstance(n.ctx, (ast.Store, ast.Del))}
                for v in list(self.t):
                    if self.t[v] is not None and (self.reads[v] & inner or v in inner):
                        self.t[v] = None
            s2 = self._sub(s)
            yield s2
            assigned = {n.id for n in ast.walk(s2) if isinstance(n, ast.Name) and isinstance(n.ctx, (ast.Store, ast.Del))}
            for v in list(self.t):
                if self.t[v] is not None and (self.reads[v] & assigned or (v in assigned and self._def.get(v) is not s2)):
                    self.t[v] = None
            self.seen |= assigned

    _def = {}

    def unmatched(self, s, what):
        if (isinstance(s, ast.Assign) and len(s.targets) == 1 and isinstance(s.targets[0], ast.Name)
                and s.targets[0].id not in self.protected and s.targets[0].id not in self.t and s.targets[0].id not in self.seen
                and isinstance(s.value, (ast.Call, ast.BinOp, ast.Subscript, ast.Attribute, ast.Name)) and _pure(s.value, self.h)):
            v = s.targets[0].id
            self.t[v] = s.value
            self.reads[v] = {n.id for n in ast.walk(s.value) if isinstance(n, ast.Name)}
            self._def = dict(self._def); self._def[v] = s
            return
        raise Untranslatable(what + ast.unparse(s).split("\n")[0][:70])


def m_stmt(node, src):
    """match a statement against pattern source; -> hole dict or None.  `raise ...` in the pattern matches any raise"""
    pat = ast.parse(src).body[0]
    env = {}

    def fix(n, p):       # any `raise X(...)` is as good as another
        if isinstance(p, ast.If) and len(p.body) == 1 and isinstance(p.body[0], ast.Raise):
            if not (isinstance(n, ast.If) and len(n.body) == 1 and isinstance(n.body[0], ast.Raise) and not n.orelse):
                return None
            return pmatch(n.test, p.test, env)
        return pmatch(n, p, env)
    return env if fix(node, pat) else None


def m_expr(node, src):
    env = {}
    return env if pmatch(node, ast.parse(src, mode="eval").body, env) else None


def _name(n):
    if isinstance(n, ast.Name):
        return n.id
    raise Untranslatable("expected a variable, got " + ast.unparse(n)[:50])


def _body(fn):
    return [s for s in fn.body if not (isinstance(s, ast.Expr) and isinstance(s.value, ast.Constant))]


def _funcs(path):
    return {n.name: n for n in ast.parse(open(path).read()).body if isinstance(n, ast.FunctionDef)}


def src_factors(repo):
    funcs = _funcs(os.path.join(repo, "tensorly", "metrics", "factors.py"))
    fn = funcs.get("congruence_coefficient")
    if fn is None:
        raise Untranslatable("congruence_coefficient not found")
    ps = [a.arg for a in fn.args.args]
    if len(ps) != 3:
        raise Untranslatable("parameters " + str(ps))
    p1, p2, pabs = ps
    side = {p1: 1, p2: 2}
    sw = dict(len=False, cols=False, rows=False, z1=False, z2=False, L=None, R=None, abs="AbsNever")
    st = dict(list=None, cols=None, loop=False, acc=None, prod=False, row=None, col=None, perm=None, idx=None, ret=False, late_abs=False)
    tm = Temps(_helpers(funcs, {"congruence_coefficient"}), protected=ps)
    for s in tm.walk(_body(fn)):
        e = m_stmt(s, "if T.is_tensor(_X):\n    _X = [_X]")
        if e and _name(e["_X"]) in side and not st["loop"]:
            continue
        e = m_stmt(s, "if len(_A) != len(_B):\n    raise ValueError()")
        if e and {_name(e["_A"]), _name(e["_B"])} == {p1, p2} and not st["loop"]:
            sw["len"] = True; continue
        e = m_stmt(s, "_L = []")
        if e and st["list"] is None:
            st["list"] = _name(e["_L"]); continue
        e = m_stmt(s, "_C = [T.shape(_m)[1] for _m in _A] + [T.shape(_n)[1] for _n in _B]")
        if e and {_name(e["_A"]), _name(e["_B"])} == {p1, p2}:
            st["cols"] = _name(e["_C"]); continue
        e = m_stmt(s, "if len(np.unique(_C)) > 1:\n    raise ValueError()")
        if e and st["cols"] is not None and _name(e["_C"]) == st["cols"] and not st["loop"]:
            sw["cols"] = True; continue
        if isinstance(s, ast.For) and not st["loop"] and not s.orelse:
            e = {}
            if not pmatch(s.target, ast.parse("(_a, _b)", mode="eval").body, e) or not pmatch(s.iter, ast.parse("zip(_A, _B)", mode="eval").body, e):
                raise Untranslatable("loop header " + ast.unparse(s.target))
            if (_name(e["_A"]), _name(e["_B"])) != (p1, p2) or st["list"] is None:
                raise Untranslatable("loop over " + ast.unparse(s.iter))
            _factors_loop(s.body, _name(e["_a"]), _name(e["_b"]), st["list"], pabs, sw)
            st["loop"] = True; continue
        e = m_stmt(s, "_acc = 1")
        if e and st["loop"] and st["acc"] is None:
            st["acc"] = _name(e["_acc"]); continue
        if isinstance(s, ast.For) and st["loop"] and st["acc"] is not None and not st["prod"] and len(s.body) == 1:
            e1 = m_stmt(s.body[0], "_acc *= _c") or m_stmt(s.body[0], "_acc = _acc * _c")
            if (e1 and _name(e1["_acc"]) == st["acc"] and _name(e1["_c"]) == _name(s.target) and _name(s.iter) == st["list"]):
                st["prod"] = True; continue
        e = m_stmt(s, "_r, _c = linear_sum_assignment(-_acc)") or m_stmt(s, "_r, _c = linear_sum_assignment(_acc, maximize=True)")
        if e and st["prod"] and _name(e["_acc"]) == st["acc"]:
            st["row"], st["col"] = _name(e["_r"]), _name(e["_c"]); continue
        e = m_stmt(s, "_d = dict(zip(_r, _c))")
        if e and st["row"] and (_name(e["_r"]), _name(e["_c"])) == (st["row"], st["col"]):
            st["idx"] = _name(e["_d"]); continue
        e = m_stmt(s, "_p = [_d[_i] for _i in range(T.shape(_A[0])[1])]")
        if e and st["idx"] and _name(e["_d"]) == st["idx"] and _name(e["_A"]) in side:
            st["perm"] = _name(e["_p"]); continue
        e = m_stmt(s, "return _acc[_r, _c].mean(), _p")
        if (e and st["perm"] and _name(e["_p"]) == st["perm"] and _name(e["_acc"]) == st["acc"]
                and (_name(e["_r"]), _name(e["_c"])) == (st["row"], st["col"])):
            st["ret"] = True; continue
        # |prod_m c_m| = prod_m |c_m| (Proofs/MetricsProofs19.v: abs_after_product): ONE absolute value of the product matrix under
        # the same flag, with no absolute value inside the loop, is the canonical decision
        e = (m_stmt(s, "if _f:\n    _acc = T.abs(_acc)") or m_stmt(s, "if _f:\n    _acc = abs(_acc)") or m_stmt(s, "if _f:\n    _acc = np.abs(_acc)"))
        if (e and st["prod"] and st["row"] is None and not s.orelse and _name(e["_f"]) == pabs and _name(e["_acc"]) == st["acc"]
                and sw["abs"] == "AbsNever" and not st["late_abs"]):
            st["late_abs"] = True; sw["abs"] = "AbsIf"; continue
        tm.unmatched(s, "statement: ")
    if not (st["loop"] and st["prod"] and st["ret"] and sw["L"] and sw["R"]):
        raise Untranslatable("incomplete: loop / product / assignment / return not all found")
    bl = lambda b: "true" if b else "false"
    return f"(mkCS {bl(sw['len'])} {bl(sw['cols'])} {bl(sw['rows'])} {bl(sw['z1'])} {bl(sw['z2'])} {sw['L']} {sw['R']} {sw['abs']})"


def _factors_loop(body, a, b, lst, pabs, sw):
    env = {a: ("raw", 1), b: ("raw", 2)}
    appended = 0

    def pm(v):
        return f"(PRaw W{v[1]})" if v[0] == "raw" else f"(PNormed W{v[1]} W{v[2]})"
    tm = Temps({}, protected={a, b, lst, pabs})
    cur = None          # a temporary holding the congruence matrix of this pair before it is appended
    for s in tm.walk(body):
        e = m_stmt(s, "if T.shape(_x)[0] != T.shape(_y)[0]:\n    raise ValueError()")
        if e and {env.get(_name(e["_x"]), (0, 0))[1], env.get(_name(e["_y"]), (0, 0))[1]} == {1, 2}:
            sw["rows"] = True; continue
        # "some column norm is zero": the product of the norms is zero / any norm is zero / the smallest norm is zero (the same
        # decision in exact arithmetic; the product form underflows in floating point: known finding congruence_norm_product_underflow)
        e = e1 = None
        for zt in ("T.prod(T.norm({0}, axis=0)) == 0", "T.any(T.norm({0}, axis=0) == 0)", "T.min(T.norm({0}, axis=0)) == 0"):
            e = e or m_stmt(s, "if " + zt.format("_x") + " or " + zt.format("_y") + ":\n    raise ValueError()")
        for zt in ("T.prod(T.norm({0}, axis=0)) == 0", "T.any(T.norm({0}, axis=0) == 0)", "T.min(T.norm({0}, axis=0)) == 0"):
            e1 = e1 or (None if e else m_stmt(s, "if " + zt.format("_x") + ":\n    raise ValueError()"))
        if e or e1:
            for h in (e or e1).values():
                v = env.get(_name(h))
                if v is None or v[0] != "raw":
                    raise Untranslatable("zero-norm test on a non-raw matrix")
                sw["z%d" % v[1]] = True
            continue
        e = m_stmt(s, "_x = _x / T.norm(_y, axis=0)")
        if e:
            vx, vy = env.get(_name(e["_x"])), env.get(_name(e["_y"]))
            if vx is None or vy is None or vx[0] != "raw" or vy[0] != "raw":
                raise Untranslatable("normalisation of / by an already normalised matrix")
            env[_name(e["_x"])] = ("normed", vx[1], vy[1]); continue
        e = m_stmt(s, "_L.append(T.dot(T.transpose(_x), _y))")
        if e and _name(e["_L"]) == lst and appended == 0:
            vx, vy = env.get(_name(e["_x"])), env.get(_name(e["_y"]))
            if vx is None or vy is None:
                raise Untranslatable("dot of unknown operands")
            sw["L"], sw["R"] = pm(vx), pm(vy); appended = 1; continue
        e = m_stmt(s, "if _f:\n    _L[-1] = T.abs(_L[-1])")
        if e and appended and _name(e["_L"]) == lst and _name(e["_f"]) == pabs and not s.orelse:
            sw["abs"] = "AbsIf"; continue
        e = m_stmt(s, "_L[-1] = T.abs(_L[-1])")
        if e and appended and _name(e["_L"]) == lst:
            sw["abs"] = "AbsAlways"; continue
        e = m_stmt(s, "_L[-1] = T.to_numpy(_L[-1])")
        if e and appended and _name(e["_L"]) == lst:
            continue
        # the same through a named temporary:  c = T.dot(T.transpose(x), y); [if f: c = T.abs(c)]; [c = T.to_numpy(c)]; L.append(c)
        e = m_stmt(s, "_c = T.dot(T.transpose(_x), _y)")
        if e and appended == 0 and cur is None and isinstance(e["_c"], ast.Name) and _name(e["_c"]) not in env:
            vx, vy = env.get(_name(e["_x"])), env.get(_name(e["_y"]))
            if vx is None or vy is None:
                raise Untranslatable("dot of unknown operands")
            sw["L"], sw["R"] = pm(vx), pm(vy); cur = _name(e["_c"]); continue
        e = m_stmt(s, "if _f:\n    _c = T.abs(_c)")
        if e and cur and appended == 0 and not s.orelse and _name(e["_c"]) == cur and _name(e["_f"]) == pabs:
            sw["abs"] = "AbsIf"; continue
        e = m_stmt(s, "_c = T.abs(_c)")
        if e and cur and appended == 0 and _name(e["_c"]) == cur:
            sw["abs"] = "AbsAlways"; continue
        e = m_stmt(s, "_c = T.to_numpy(_c)")
        if e and cur and appended == 0 and _name(e["_c"]) == cur:
            continue
        e = m_stmt(s, "_L.append(T.to_numpy(_c))") or m_stmt(s, "_L.append(_c)")
        if e and cur and appended == 0 and _name(e["_L"]) == lst and isinstance(e["_c"], ast.Name) and _name(e["_c"]) == cur:
            appended = 1; continue
        tm.unmatched(s, "loop statement: ")
    if not appended:
        raise Untranslatable("no congruence matrix appended in the loop")


METH_CTOR = {"stacked": "Stacked", "max_score": "MaxScore", "min_score": "MinScore", "avg_score": "AvgScore"}


def src_similarity(repo):
    fs = _funcs(os.path.join(repo, "tensorly", "metrics", "similarity.py"))
    fn, cf = fs.get("correlation_index"), fs.get("_compute_correlation_index")
    if fn is None or cf is None:
        raise Untranslatable("correlation_index / _compute_correlation_index not found")
    ps = [a.arg for a in fn.args.args]
    if len(ps) != 4:
        raise Untranslatable("parameters " + str(ps))
    f1, f2, ptol, pmeth = ps
    sw = dict(rank=False, methods=None, stack=None, shapes=False, z1=False, z2=False, n1=False, n2=False, red=None)
    X = {}          # variable -> [side, normalised?]
    norms = {}      # variable -> side
    opts = {}       # variable -> list of names
    idxs = None
    done = False
    rank_sides = set()
    tm = Temps(_helpers(fs, {"correlation_index", "_compute_correlation_index"}), protected=ps)
    for s in tm.walk(_body(fn)):
        if done:
            raise Untranslatable("statement after return")
        if isinstance(s, ast.For) and len(s.body) == 1 and not s.orelse:
            e = {}
            inner = m_stmt(s.body[0], "if len({tl.shape(_A)[1] for _A in _fs}) != 1:\n    raise ValueError()")
            # the uniform-rank check must reach BOTH factor lists (a list or a tuple of the two, in either order); a loop over one
            # of them only is not the same decision (lists of different lengths: a foreign rank in the unpaired tail; an empty list)
            if inner and (pmatch(s.iter, ast.parse("[_p, _q]", mode="eval").body, e) or pmatch(s.iter, ast.parse("(_p, _q)", mode="eval").body, e)) \
                    and _name(inner["_fs"]) == _name(s.target) and {_name(e["_p"]), _name(e["_q"])} == {f1, f2}:
                sw["rank"] = True; continue
            e = {}
            if pmatch(s.target, ast.parse("(_a, _b)", mode="eval").body, e) and pmatch(s.iter, ast.parse("zip(_A, _B)", mode="eval").body, e):
                A, B = _name(e["_A"]), _name(e["_B"])
                inner = m_stmt(s.body[0], "if tl.shape(_a) != tl.shape(_b):\n    raise ValueError()")
                if inner and A in X and B in X and {X[A][0], X[B][0]} == {1, 2} and \
                        {_name(inner["_a"]), _name(inner["_b"])} == {_name(e["_a"]), _name(e["_b"])}:
                    sw["shapes"] = True; continue
                inner = m_stmt(s.body[0], "if tl.any(_a == 0) or tl.any(_b == 0):\n    raise ValueError()")
                inner1 = None if inner else m_stmt(s.body[0], "if tl.any(_a == 0):\n    raise ValueError()")
                if (inner or inner1) and A in norms and B in norms:
                    lv = {_name(e["_a"]): norms[A], _name(e["_b"]): norms[B]}
                    for h in (inner or inner1).values():
                        sw["z%d" % lv[_name(h)]] = True
                    continue
            raise Untranslatable("loop: " + ast.unparse(s).split("\n")[0][:70])
        e = m_stmt(s, "if len({tl.shape(_A)[1] for _A in _fs}) != 1:\n    raise ValueError()")
        if e and _name(e["_fs"]) in (f1, f2) and not X:
            rank_sides.add(_name(e["_fs"]))
            if rank_sides == {f1, f2}:
                sw["rank"] = True
            continue
        e = m_stmt(s, "_o = _list")
        if e and isinstance(e["_list"], ast.List) and all(isinstance(x, ast.Constant) and isinstance(x.value, str) for x in e["_list"].elts):
            opts[_name(e["_o"])] = [x.value for x in e["_list"].elts]; continue
        e = m_stmt(s, "if _m not in _o:\n    raise ValueError()")
        if e and _name(e["_m"]) == pmeth and _name(e["_o"]) in opts:
            names = opts[_name(e["_o"])]
            if any(n not in METH_CTOR for n in names):
                raise Untranslatable("unknown method name in options: " + str(names))
            sw["methods"] = names; continue
        if isinstance(s, ast.If) and m_expr(s.test, "_m == 'stacked'") and len(s.body) == 2 and len(s.orelse) == 2 and idxs is None:
            ok = True
            for k, (sb, so) in enumerate(zip(s.body, s.orelse)):
                eb = m_stmt(sb, "_X = [tl.concatenate(_f, 0)]"); eo = m_stmt(so, "_X = _f")
                if not (eb and eo and _name(eb["_X"]) == _name(eo["_X"]) and _name(eb["_f"]) == _name(eo["_f"]) and _name(eb["_f"]) in (f1, f2)):
                    ok = False; break
                X[_name(eb["_X"])] = [1 if _name(eb["_f"]) == f1 else 2, False]
            if ok and sorted(v[0] for v in X.values()) == [1, 2]:
                sw["stack"] = True; continue
            raise Untranslatable("stacking block")
        e = m_stmt(s, "_n = [tl.norm(_x, axis=0) for _x in _X]")
        if e and _name(e["_X"]) in X and not X[_name(e["_X"])][1]:
            norms[_name(e["_n"])] = X[_name(e["_X"])][0]; continue
        e = m_stmt(s, "_X = [_x / _c for _x, _c in zip(_X, _n)]")
        if e and _name(e["_X"]) in X and not X[_name(e["_X"])][1] and norms.get(_name(e["_n"])) == X[_name(e["_X"])][0]:
            X[_name(e["_X"])][1] = True; continue
        e = m_stmt(s, "_I = [_compute_correlation_index(_a, _b, tol=_t) for _a, _b in zip(_A, _B)]")
        if e and _name(e["_t"]) == ptol and _name(e["_A"]) in X and _name(e["_B"]) in X and X[_name(e["_A"])][0] == 1 and X[_name(e["_B"])][0] == 2:
            sw["n1"], sw["n2"] = X[_name(e["_A"])][1], X[_name(e["_B"])][1]
            idxs = _name(e["_I"]); continue
        if isinstance(s, ast.If) and idxs is not None and sw["red"] is None:
            red, node, score = {}, s, None
            while True:
                e = m_expr(node.test, "_m == _c")
                if not (e and _name(e["_m"]) == pmeth and isinstance(e["_c"], ast.Constant) and e["_c"].value in METH_CTOR and len(node.body) == 1):
                    raise Untranslatable("reduction chain test " + ast.unparse(node.test))
                r = None
                for pat, rr in (("_s = _I[0]", "RdFirst"), ("_s = tl.max(_I)", "RdMax"), ("_s = tl.min(_I)", "RdMin"), ("_s = tl.mean(_I)", "RdMean")):
                    e2 = m_stmt(node.body[0], pat)
                    if e2 and _name(e2["_I"]) == idxs:
                        r = rr; score = score or _name(e2["_s"])
                        if _name(e2["_s"]) != score:
                            raise Untranslatable("reduction target")
                if r is None:
                    raise Untranslatable("reduction " + ast.unparse(node.body[0]))
                red[e["_c"].value] = r
                if len(node.orelse) == 1 and isinstance(node.orelse[0], ast.If):
                    node = node.orelse[0]; continue
                if node.orelse:
                    e3 = m_stmt(node.orelse[0], "_s = 1.0") if len(node.orelse) == 1 else None
                    if not (e3 and _name(e3["_s"]) == score):
                        raise Untranslatable("trailing else of the reduction chain")
                break
            sw["red"] = (red, score); continue
        e = m_stmt(s, "return _s")
        if e and sw["red"] and _name(e["_s"]) == sw["red"][1]:
            done = True; continue
        tm.unmatched(s, "statement: ")
    if not (done and sw["stack"] and sw["methods"] is not None and idxs):
        raise Untranslatable("incomplete: options / stacking / indices / return not all found")
    # _compute_correlation_index
    cps = [a.arg for a in cf.args.args]
    if len(cps) != 3:
        raise Untranslatable("_compute_correlation_index parameters")
    x1, x2, ctol = cps
    cvar = nvar = svar = None; cabs = None; nexp = None; cexp = None; cmp_ = None; cdone = False
    tm2 = Temps(_helpers(fs, {"correlation_index", "_compute_correlation_index"}), protected=cps)
    for s in tm2.walk(_body(cf)):
        e = m_stmt(s, "_c = tl.abs(tl.matmul(tl.conj(tl.transpose(_a)), _b))") or m_stmt(s, "_c = tl.abs(tl.dot(tl.transpose(_a), _b))")
        e_ = None if e else (m_stmt(s, "_c = tl.matmul(tl.conj(tl.transpose(_a)), _b)") or m_stmt(s, "_c = tl.dot(tl.transpose(_a), _b)"))
        if (e or e_) and cvar is None:
            ee = e or e_
            if (_name(ee["_a"]), _name(ee["_b"])) != (x1, x2):
                raise Untranslatable("cross product operands")
            cvar, cabs = _name(ee["_c"]), bool(e); continue
        if isinstance(s, ast.Assign) and len(s.targets) == 1 and isinstance(s.targets[0], ast.Name) and cvar and svar is None:
            try:
                nexp_try = _nexp(s.value, cvar)
                nvar, nexp = s.targets[0].id, nexp_try; continue
            except Untranslatable:
                pass
            try:        # not a score expression: possibly a temporary (tm2.unmatched below decides)
                cexp_try = _cexp(s.value, cvar, nvar, nexp)
                cexp, svar = cexp_try, s.targets[0].id; continue
            except Untranslatable:
                pass
        if isinstance(s, ast.If) and svar and cmp_ is None and not s.orelse and len(s.body) == 1:
            e = m_stmt(s.body[0], "_s = 0")
            t = s.test
            if e and _name(e["_s"]) == svar and isinstance(t, ast.Compare) and len(t.ops) == 1 and isinstance(t.left, ast.Name) and t.left.id == svar \
                    and isinstance(t.comparators[0], ast.Name) and t.comparators[0].id == ctol and isinstance(t.ops[0], (ast.Lt, ast.LtE)):
                cmp_ = "CLt" if isinstance(t.ops[0], ast.Lt) else "CLe"; continue
        e = m_stmt(s, "return _s")
        if e and svar and _name(e["_s"]) == svar and cmp_:
            cdone = True; continue
        tm2.unmatched(s, "_compute_correlation_index: ")
    if not (cdone and cexp):
        raise Untranslatable("_compute_correlation_index incomplete")
    bl = lambda b: "true" if b else "false"
    red = sw["red"][0]
    redf = "(fun m => match m with " + " | ".join(f"{METH_CTOR[n]} => {('Some ' + red[n]) if n in red else 'None'}" for n in METH_CTOR) + " end)"
    meths = "[" + "; ".join(METH_CTOR[n] for n in sw["methods"]) + "]"
    if rank_sides and rank_sides != {f1, f2}:
        raise Untranslatable("uniform-rank check on one factor list only: " + ", ".join(sorted(rank_sides)))
    return (f"(mkCI {bl(sw['rank'])} {meths} {bl(sw['stack'])} {bl(sw['shapes'])} {bl(sw['z1'])} {bl(sw['z2'])} {bl(sw['n1'])} {bl(sw['n2'])} "
            f"{redf} {bl(cabs)} {cexp} {cmp_})")


def _nexp(n, cvar):
    e = m_expr(n, "tl.shape(_c)[_k]")
    if e and _name(e["_c"]) == cvar and isinstance(e["_k"], ast.Constant) and e["_k"].value in (0, 1):
        return "NRows" if e["_k"].value == 0 else "NCols"
    if isinstance(n, ast.BinOp) and isinstance(n.op, ast.Add):
        return f"(NAdd {_nexp(n.left, cvar)} {_nexp(n.right, cvar)})"
    if isinstance(n, ast.BinOp) and isinstance(n.op, ast.Mult) and isinstance(n.left, ast.Constant) and n.left.value == 2:
        return f"(NTwice {_nexp(n.right, cvar)})"
    raise Untranslatable("size expression " + ast.unparse(n)[:50])


def _vexp(n, cvar):
    e = m_expr(n, "tl.max(_c, _k)")
    if e and _name(e["_c"]) == cvar and isinstance(e["_k"], ast.Constant) and e["_k"].value in (0, 1):
        return f"(VMax {e['_k'].value}%nat)"
    e = m_expr(n, "tl.abs(_v)")
    if e:
        return f"(VAbs {_vexp(e['_v'], cvar)})"
    if isinstance(n, ast.BinOp) and isinstance(n.op, ast.Sub):
        if isinstance(n.right, ast.Constant) and n.right.value == 1:
            return f"(VSubOne {_vexp(n.left, cvar)})"
        if isinstance(n.left, ast.Constant) and n.left.value == 1:
            return f"(VOneSub {_vexp(n.right, cvar)})"
    raise Untranslatable("vector expression " + ast.unparse(n)[:50])


def _cexp(n, cvar, nvar, nexp):
    if isinstance(n, ast.Constant) and n.value == 1:
        return "COne"
    if isinstance(n, ast.Name) and n.id == nvar and nexp:
        return f"(CNat {nexp})"
    e = m_expr(n, "tl.sum(_v)")
    if e:
        return f"(CSum {_vexp(e['_v'], cvar)})"
    if isinstance(n, ast.BinOp) and type(n.op) in (ast.Add, ast.Mult, ast.Div):
        c = {ast.Add: "CAdd", ast.Mult: "CMul", ast.Div: "CDiv"}[type(n.op)]
        return f"({c} {_cexp(n.left, cvar, nvar, nexp)} {_cexp(n.right, cvar, nvar, nexp)})"
    try:
        return f"(CNat {_nexp(n, cvar)})"
    except Untranslatable:
        raise Untranslatable("score expression " + ast.unparse(n)[:50])


def src_leverage(repo):
    lfuncs = _funcs(os.path.join(repo, "tensorly", "metrics", "leverage_scores.py"))
    fn = lfuncs.get("leverage_score_dist")
    if fn is None or len(fn.args.args) != 1:
        raise Untranslatable("leverage_score_dist(matrix) not found")
    M = fn.args.args[0].arg
    U = S = dt = cut = k = lev = None; cutl = None; cmp_ = None; renorm = False; done = False; cands = {}
    tm = Temps(_helpers(lfuncs, {"leverage_score_dist"}), protected=[M])
    for s in tm.walk(_body(fn)):
        e = m_stmt(s, "_U, _S, _ = tl.svd(_M, full_matrices=False)")
        if e and U is None and _name(e["_M"]) == M:
            U, S = _name(e["_U"]), _name(e["_S"]); continue
        e = m_stmt(s, "_d = tl.context(_M)['dtype']")
        if e and _name(e["_M"]) == M and lev is None:
            dt = _name(e["_d"]); continue
        if isinstance(s, ast.Assign) and len(s.targets) == 1 and isinstance(s.targets[0], ast.Name) and U and cut is None:
            # a product of cut-off factors (in any order / association; a factor may be an earlier such product): a CANDIDATE for the
            # rank cut-off; which candidate is the cut-off is decided by the comparison `S > candidate` below
            def flat(n):
                if isinstance(n, ast.BinOp) and isinstance(n.op, ast.Mult):
                    a_, b_ = flat(n.left), flat(n.right)
                    return None if a_ is None or b_ is None else a_ + b_
                if isinstance(n, ast.Name) and n.id in cands:
                    return list(cands[n.id])
                if (lambda e: e and _name(e["_S"]) == S)(m_expr(n, "tl.max(_S)")):
                    return ["FMaxS"]
                if (lambda e: e and _name(e["_M"]) == M)(m_expr(n, "max(_M.shape)")):
                    return ["FMaxShape"]
                if (lambda e: e and _name(e["_M"]) == M)(m_expr(n, "min(_M.shape)")):
                    return ["FMinShape"]
                if (lambda e: e and dt and _name(e["_d"]) == dt)(m_expr(n, "tl.eps(_d)")):
                    return ["FEps"]
                return None
            out = flat(s.value)
            if out is not None and s.targets[0].id not in cands:
                cands[s.targets[0].id] = out; continue
        e = m_stmt(s, "_k = int(tl.max(tl.where(_S > _c)[0])) + 1") or m_stmt(s, "_k = int(tl.max(tl.where(_S >= _c)[0])) + 1")
        if e and cut is None and _name(e["_S"]) == S and _name(e["_c"]) in cands and k is None:
            cut = _name(e["_c"]); cutl = cands[cut]
            cmpnode = s.value.left.args[0].args[0].value.args[0]
            cmp_ = "CLt" if isinstance(cmpnode.ops[0], ast.Gt) else "CLe"
            k = _name(e["_k"]); continue
        e = m_stmt(s, "_l = tl.sum(_U[:, :_k] ** 2, axis=1) / tl.tensor(_k, dtype=_d)")
        if e and k and _name(e["_U"]) == U and _name(e["_k"]) == k and lev is None:
            lev = _name(e["_l"]); continue
        if isinstance(s, ast.If) and lev and not s.orelse and m_expr(s.test, "tl.context(_l)['dtype'] != tl.float64"):
            if len(s.body) == 2:
                e1 = m_stmt(s.body[0], "_l = tl.tensor(_l, dtype=tl.float64)")
                e2 = m_stmt(s.body[1], "_l /= tl.sum(_l)") or m_stmt(s.body[1], "_l = _l / tl.sum(_l)")
                if e1 and e2 and _name(e1["_l"]) == lev and _name(e2["_l"]) == lev:
                    renorm = True; continue
            if len(s.body) == 1:
                e1 = m_stmt(s.body[0], "_l = tl.tensor(_l, dtype=tl.float64)")
                if e1 and _name(e1["_l"]) == lev:
                    continue
            raise Untranslatable("dtype branch")
        e = m_stmt(s, "return _l")
        if e and lev and _name(e["_l"]) == lev:
            done = True; continue
        tm.unmatched(s, "statement: ")
    if not (done and cutl and cmp_):
        raise Untranslatable("incomplete")
    return f"(mkLV [{'; '.join(cutl)}] {cmp_} {'true' if renorm else 'false'})"


def src_cp_permute(repo):
    fn = _funcs(os.path.join(repo, "tensorly", "cp_tensor.py")).get("cp_permute_factors")
    if fn is None or len(fn.args.args) != 2:
        raise Untranslatable("cp_permute_factors(ref, tensors) not found")
    ref, tp = [a.arg for a in fn.args.args]
    body = _body(fn)
    sw = dict(nref=False, nlist=False, fac=False, wts=False)
    if not body or not isinstance(body[0], ast.If):
        raise Untranslatable("the list / single-tensor branch is not the first statement")
    s = body[0]
    e = m_expr(s.test, "not isinstance(_T, list)")
    if not (e and _name(e["_T"]) == tp and len(s.body) == 2 and len(s.orelse) == 3):
        raise Untranslatable("list / single-tensor branch")
    e1, e2 = m_stmt(s.body[0], "_P = [_T.cp_copy()]"), m_stmt(s.body[1], "_T = [_T]")
    if not (e1 and e2 and _name(e1["_T"]) == tp and _name(e2["_T"]) == tp):
        raise Untranslatable("single-tensor branch")
    P = _name(e1["_P"])
    e3, e4 = m_stmt(s.orelse[0], "_T = list(_T)"), m_stmt(s.orelse[1], "_P = []")
    lp = s.orelse[2]
    if not (e3 and e4 and _name(e3["_T"]) == tp and _name(e4["_P"]) == P and isinstance(lp, ast.For) and not lp.orelse
            and (lambda e: e and _name(e["_T"]) == tp)(m_expr(lp.iter, "range(len(_T))")) and 1 <= len(lp.body) <= 2):
        raise Untranslatable("list branch")
    iv = _name(lp.target)
    e5 = m_stmt(lp.body[0], "_P.append(_T[_i].cp_copy())")
    if not (e5 and _name(e5["_P"]) == P and _name(e5["_T"]) == tp and _name(e5["_i"]) == iv):
        raise Untranslatable("list branch: the permuted tensors must be copies")
    if len(lp.body) == 2:
        e6 = m_stmt(lp.body[1], "_T[_i] = cp_normalize(_T[_i])")
        if not (e6 and _name(e6["_T"]) == tp and _name(e6["_i"]) == iv):
            raise Untranslatable("list branch: " + ast.unparse(lp.body[1])[:60])
        sw["nlist"] = True
    nt = nf = perm = None; stage = 0
    tm = Temps({}, protected=[a.arg for a in fn.args.args])
    for s in tm.walk(body[1:]):
        if stage == 0:
            e = m_stmt(s, "_R = cp_normalize(_R)")
            if e and _name(e["_R"]) == ref:
                sw["nref"] = True; continue
            e = m_stmt(s, "_n = len(_R.factors)")
            if e and _name(e["_R"]) == ref:
                nf = _name(e["_n"]); continue
            e = m_stmt(s, "_n = len(_T)")
            if e and isinstance(e["_T"], ast.Name) and e["_T"].id == tp:
                nt = _name(e["_n"]); continue
            e = m_stmt(s, "_p = []")
            if e and perm is None:
                perm = _name(e["_p"]); continue
            if isinstance(s, ast.For) and nt and nf and perm and not s.orelse and (lambda e: e and _name(e["_n"]) == nt)(m_expr(s.iter, "range(_n)")):
                iv = _name(s.target); col = None; appended = False
                for k, b in enumerate(s.body):
                    e = m_stmt(b, "_, _c = congruence_coefficient(_R.factors, _T[_i].factors)")
                    if e and k == 0 and _name(e["_R"]) == ref and _name(e["_T"]) == tp and _name(e["_i"]) == iv:
                        col = _name(e["_c"]); continue
                    if col is None:
                        raise Untranslatable("the loop must start with the congruence of (reference, tensor)")
                    e = m_stmt(b, "_c = T.tensor(_c, dtype=T.int64)")
                    if e and _name(e["_c"]) == col:
                        continue
                    if isinstance(b, ast.For) and not b.orelse and len(b.body) == 1 and (lambda e: e and _name(e["_n"]) == nf)(m_expr(b.iter, "range(_n)")):
                        e = m_stmt(b.body[0], "_P[_i].factors[_f] = _P[_i].factors[_f][:, _c]")
                        if e and _name(e["_P"]) == P and _name(e["_i"]) == iv and _name(e["_f"]) == _name(b.target) and _name(e["_c"]) == col:
                            sw["fac"] = True; continue
                    e = m_stmt(b, "_P[_i].weights = _P[_i].weights[_c]")
                    if e and _name(e["_P"]) == P and _name(e["_i"]) == iv and _name(e["_c"]) == col:
                        sw["wts"] = True; continue
                    e = m_stmt(b, "_p.append(_c)")
                    if e and _name(e["_p"]) == perm and _name(e["_c"]) == col:
                        appended = True; continue
                    raise Untranslatable("loop statement: " + ast.unparse(b).split("\n")[0][:70])
                if not appended:
                    raise Untranslatable("the permutation is not recorded")
                stage = 1; continue
        elif stage == 1:
            e = m_stmt(s, "if len(_P) == 1:\n    _P = _P[0]")
            if e and _name(e["_P"]) == P:
                stage = 2; continue
        elif stage == 2:
            e = m_stmt(s, "return _P, _p")
            if e and _name(e["_P"]) == P and _name(e["_p"]) == perm:
                stage = 3; continue
        tm.unmatched(s, "statement: ")
    if stage != 3:
        raise Untranslatable("incomplete: main loop / unwrap / return not all found")
    bl = lambda b: "true" if b else "false"
    return f"(mkCPP {bl(sw['nref'])} {bl(sw['nlist'])} {bl(sw['fac'])} {bl(sw['wts'])})"


SRC_TIES = {          # name -> (extractor, record type, canonical term, streams whose cases carry the sampled comparison)
    "factors.congruence_coefficient": (src_factors, "cong_src", "canonical_cs", ("congruence_coefficient", "congruence_certified", "cp_permute_factors", "congruence_edge", "cp_permute_ties", "congruence_scale")),
    "similarity.correlation_index": (src_similarity, "ci_src", "canonical_ci", ("correlation_index", "correlation_index_lengths")),
    "leverage_scores.leverage_score_dist": (src_leverage, "lev_src", "canonical_lv", ("leverage_score_dist",)),
    "cp_tensor.cp_permute_factors": (src_cp_permute, "cpp_src", "canonical_pp", ("cp_permute_factors", "cp_permute_full", "cp_permute_ties")),
}


def source_tie_records(chk):
    """-> {name: (status, term)}; status: 'canonical' (the proved lemmas of Proofs/MetricsSrcTie.v cover all inputs),
    'differs' (interpreted and compared with the model on every case), 'broken' (fail closed)"""
    import subprocess, shutil
    d = os.path.join(C.BUILD, "cases", "C20", f"srctie_{os.getpid()}")
    shutil.rmtree(d, ignore_errors=True); os.makedirs(d, exist_ok=True)
    out, procs = {}, []
    for name, (fn, ty, canon, _) in SRC_TIES.items():
        try:
            term = fn(C.REPO)
        except Untranslatable as ex:
            out[name] = ("broken", str(ex)); continue
        except Exception as ex:          # a bug of the executor must not pass silently either
            out[name] = ("broken", f"{type(ex).__name__}: {ex}"); continue
        vf = os.path.join(d, "Tie_" + ty + ".v")
        with open(vf, "w") as f:
            f.write("From Coq Require Import List. Import ListNotations.\nFrom TLV Require Import Model.Metrics Model.MetricsSrc Proofs.MetricsSrcTie.\n"
                    f"Definition extracted : {ty} := {term}.\nLemma tie : extracted = {canon}.\nProof. reflexivity. Qed.\n")
        procs.append((name, term, vf, subprocess.Popen(["timeout", "120", "coqc", "-w", "none", "-R", os.path.join(C.COQ, "theories"), "TLV", vf],
                                                        stdout=subprocess.PIPE, stderr=subprocess.PIPE, text=True, cwd=d)))
    for name, term, vf, pr in procs:
        o, e = pr.communicate()
        if pr.returncode == 0:
            out[name] = ("canonical", term)
        else:
            # is the term at least well-typed?  (otherwise the executor produced garbage: broken)
            with open(vf, "w") as f:
                ty = SRC_TIES[name][1]
                f.write("From Coq Require Import List. Import ListNotations.\nFrom TLV Require Import Model.Metrics Model.MetricsSrc.\n"
                        f"Definition extracted : {ty} := {term}.\n")
            r = subprocess.run(["timeout", "120", "coqc", "-w", "none", "-R", os.path.join(C.COQ, "theories"), "TLV", vf], capture_output=True, text=True, cwd=d)
            out[name] = ("differs", term) if r.returncode == 0 else ("broken", "ill-typed record: " + term[:120])
    shutil.rmtree(d, ignore_errors=True)
    for name, (stt, val) in out.items():
        if stt == "broken":
            chk.broken.append({"what": f"source tie {name} broken: the symbolic executor does not cover the current source ({val})",
                               "detail": val})
    return out



# ----------------------------------------------------------------------------- round-8 streams (appended LAST in STREAMS)
def gen_congruence_edge(tier, rng):
    """absolute_value=False where EVERY aligned congruence is negative (odd number of sign flips per component: the maximum itself
    may be negative; rank 1: exactly -1, the lower end of the range), rank 1 in every option, and heavily tied inputs (all columns
    equal / two pairs of repeated columns / B = A with a repeated column): several optimal matchings, ANY of them is a correct
    answer -- compared by value only"""
    calls = []
    reps = 2 if tier == "quick" else 6
    for r in range(1, 6):
        for nm in (1, 3):
            for _ in range(reps if r <= 3 else 1):
                hs = [rng.randint(2, 5) for _ in range(nm)]
                A = factor_set(rng, r, hs, generic=True)
                sigma = list(range(r)); rng.shuffle(sigma)
                ds = scalings(rng, r, nm, "pos")
                flip = [rng.randrange(nm) for _ in range(r)]          # exactly one negative multiplier per component
                ds = [[-abs(d) if flip[j] == m else abs(d) for j, d in enumerate(dm)] for m, dm in enumerate(ds)]
                B = equivalent_copy(A, sigma, ds)
                calls.append(dict(As=A, Bs=B, absv=False, single=(nm == 1 and rng.random() < 0.5), stream="all-negative"))
    for absv in (True, False, None):
        for nm in (1, 2):
            hs = [rng.randint(1, 4) for _ in range(nm)]
            A = factor_set(rng, 1, hs); B = factor_set(rng, 1, hs)
            calls.append(dict(As=A, Bs=B, absv=absv, single=(nm == 1), stream="rank-1"))
            calls.append(dict(As=A, Bs=[-a for a in A], absv=absv, single=False, stream="rank-1"))
    for k in range(9 if tier == "quick" else 30):
        r = rng.randint(2, 5); nm = rng.choice([1, 2]); hs = [rng.randint(1, 4) for _ in range(nm)]
        A = factor_set(rng, r, hs)
        kind = k % 3
        if kind == 0:                      # all columns equal: every matching is optimal
            for f in A:
                for j in range(1, r):
                    f[:, j] = f[:, 0]
        elif kind == 1 and r >= 4:         # two pairs of repeated columns
            for f in A:
                f[:, 1] = f[:, 0]; f[:, 3] = f[:, 2]
        else:
            j, k2 = rng.sample(range(r), 2)
            for f in A:
                f[:, j] = f[:, k2]
        absv = rng.choice([True, False])
        sigma = list(range(r)); rng.shuffle(sigma)
        B = [a.copy() for a in A] if k % 2 == 0 else equivalent_copy(A, sigma, scalings(rng, r, nm, "signed" if absv else "pos"))
        calls.append(dict(As=A, Bs=B, absv=absv, stream="heavy-ties"))
    return calls


def gen_corridx_lengths(tier, rng):
    """factor lists of DIFFERENT lengths (zip pairs the common prefix): the rank check still concerns every matrix of BOTH lists --
    a matrix of another rank in the unpaired tail of either list is rejected; an empty second list is rejected whatever the method
    (avg_score would otherwise average nothing).  Only requests that must be REJECTED are generated: whether lists of different
    lengths and uniform rank are accepted is not something the property states"""
    calls = []
    for k in range(16 if tier == "quick" else 48):
        r = rng.randint(1, 3); hs = [rng.randint(1, 3) for _ in range(2)]
        A = factor_set(rng, r, hs); B = factor_set(rng, r, hs)
        kind = ["tail_rank_second", "tail_rank_first", "tail_rank_long", "empty_second_avg"][k % 4]
        meth = ["max_score", "min_score", "avg_score"][(k // 4) % 3]
        if kind == "tail_rank_second":
            A = A[:1]; B = [B[0], dyadic_matrix(rng, hs[1], r + 1)]
            calls.append(dict(As=A, Bs=B, method=meth, malformed=kind, stream="lengths"))
        elif kind == "tail_rank_first":
            B = B[:1]; A = [A[0], dyadic_matrix(rng, hs[1], r + 1)]
            calls.append(dict(As=A, Bs=B, method=meth, malformed=kind, stream="lengths"))
        elif kind == "tail_rank_long":        # two full pairs, then a third matrix of another rank on one side only
            extra = dyadic_matrix(rng, rng.randint(1, 3), r + 1)
            if (k // 4) % 2 == 0:
                B = B + [extra]
            else:
                A = A + [extra]
            calls.append(dict(As=A, Bs=B, method=meth, malformed=kind, stream="lengths"))
        else:
            calls.append(dict(As=A, Bs=[], method="avg_score" if (k // 4) % 2 == 0 else meth, malformed=kind, stream="lengths"))
    return calls


def gen_permute_ties(tier, rng):
    """cp_permute_factors where the reference has REPEATED components (several optimal matchings: any of them is correct; the
    model takes the implementation's matching as the oracle's answer and checks its optimality by value) and rank 1"""
    calls = []
    for k in range(10 if tier == "quick" else 36):
        r = 1 if k % 5 == 4 else rng.randint(2, 4)
        nm = rng.choice([2, 3]); hs = [rng.randint(2, 4) for _ in range(nm)]
        A = factor_set(rng, r, hs, generic=True)
        if r >= 2:
            j, k2 = rng.sample(range(r), 2)
            for f in A:
                f[:, j] = f[:, k2]
        wref = np.array([rng.choice([0.5, 1.0, 2.0, 3.0]) for _ in range(r)])
        w = np.array([rng.choice([0.5, 1.0, 2.0, 3.0, -1.0]) for _ in range(r)])
        sigma = list(range(r)); rng.shuffle(sigma)
        B = equivalent_copy(A, sigma, scalings(rng, r, nm, "signed"))
        as_list = (k % 2 == 1)
        extra = {}
        if as_list:
            # the second tensor of the list is UNRELATED to the reference: two equivalent copies of a reference with repeated components
            # can have the same exact congruence matrix while scipy, seeing two float matrices that differ in the last bits, breaks the
            # tie differently -- the replay of the recorded answers by matrix look-up (Corr.C20.assign_tape) would then mis-attribute one
            extra = dict(sigma_other=None, Bs_other=factor_set(rng, r, hs),
                         w_other=np.array([rng.choice([0.25, 1.5, 4.0, -2.0]) for _ in range(r)]))
        calls.append(dict(As=A, Bs=B, w=w, wref=wref, sigma=sigma, as_list=as_list, pick=(k // 2) % 2, stream="ties", **extra))
    return calls


def gen_congruence_scale(tier, rng):
    """the scaling indeterminacy at LARGE and SMALL scales: B = A with permuted columns, every column multiplied by the same power of
    two 2^-k (exact in floating point; squares and sums stay far inside the normal range).  For rank * k > 1074 the PRODUCT of the
    column norms underflows to 0 although no column is zero"""
    calls = []
    for k in range(6 if tier == "quick" else 18):
        r = [5, 4, 3, 5, 2, 5][k % 6]; e = [-220, -280, -100, 60, -300, -120][k % 6]
        nm = rng.choice([1, 2]); hs = [rng.randint(2, 4) for _ in range(nm)]
        A = factor_set(rng, r, hs, generic=True, intnorm=True)
        sigma = list(range(r)); rng.shuffle(sigma)
        B = [b * (2.0 ** e) for b in equivalent_copy(A, sigma, scalings(rng, r, nm, "signed"))]
        calls.append(dict(As=A, Bs=B, absv=True, sigma=sigma, generic=True, single=(nm == 1 and k % 2 == 0), stream="scaled 2^%d" % e))
    return calls


def norm_product_underflows(call):
    ms = list(call["As"]) + list(call["Bs"])
    ns = [np.sqrt((np.asarray(m, dtype=np.float64) ** 2).sum(axis=0)) for m in ms]
    return all(np.all(n > 0) for n in ns) and any(float(np.prod(n)) == 0.0 for n in ns)


def pred_congruence_scale(call, out):
    if out[0] == "reject" and norm_product_underflows(call):
        return [("C20_congruence_norm_underflow", f"column-rescaled copy (every column norm non-zero, smallest "
                 f"{min(float(np.sqrt((np.asarray(m) ** 2).sum(axis=0)).min()) for m in call['Bs'])!r}) rejected: {str(out[1])[:120]}")]
    return pred_congruence(call, out)


def emit_congruence_scale(cid, call, out):
    """the exact model accepts these inputs; when the implementation rejects one by floating-point underflow (the known finding,
    reported by the predicate) there is nothing to compare"""
    if out[0] == "reject" and norm_product_underflows(call):
        return None
    return emit_congruence(cid, call, out)


# ----------------------------------------------------------------------------- public functions of tensorly.metrics vs the model
METRICS_MODELLED = {
    "factors.py": {"congruence_coefficient"},
    "similarity.py": {"correlation_index", "_compute_correlation_index"},
    "leverage_scores.py": {"leverage_score_dist"},
    "regression.py": {"MSE", "RMSE", "R2_score", "reflective_correlation_coefficient", "covariance", "variance", "standard_deviation",
                      "correlation"},
}
METRICS_NOT_COVERED = {      # named as outside C20 (not in the property's anchors): no model, no theorem, no correspondence
    "entropy.py": {"vonneumann_entropy", "tt_vonneumann_entropy", "cp_vonneumann_entropy"},
}


def metrics_inventory(repo):
    """every function defined at module level in tensorly/metrics/*.py of the CURRENT source, sorted into modelled / named as not
    covered / unlisted (a function that appeared since the model was written: reported in the evidence, not a verdict)"""
    import glob
    inv = {"modelled": [], "not_covered": [], "unlisted": [], "modelled_but_missing": []}
    seen = set()
    for fn in sorted(glob.glob(os.path.join(repo, "tensorly", "metrics", "*.py"))):
        base = os.path.basename(fn)
        if base == "__init__.py":
            continue
        try:
            tree = ast.parse(open(fn).read())
        except SyntaxError:
            inv["unlisted"].append(base + ": unparsable"); continue
        for node in tree.body:
            if isinstance(node, (ast.FunctionDef, ast.AsyncFunctionDef)):
                name = f"{base}:{node.name}"; seen.add(name)
                if node.name in METRICS_MODELLED.get(base, ()):
                    inv["modelled"].append(name)
                elif node.name in METRICS_NOT_COVERED.get(base, ()):
                    inv["not_covered"].append(name)
                else:
                    inv["unlisted"].append(name)
    for base, names in METRICS_MODELLED.items():
        inv["modelled_but_missing"] += [f"{base}:{n}" for n in sorted(names) if f"{base}:{n}" not in seen]
    return inv


# ----------------------------------------------------------------------------- known findings (own snippet merged at run time)
def _load_known_merged(prop, _orig=C.load_known):
    """known_findings.json is assembled by the coordinator from known_findings.d/*.json; read this property's own snippet too
    (local helper: common.py is not edited)"""
    import json, os
    known = list(_orig(prop))
    p = os.path.join(C.VERIF, "known_findings.d", f"{prop}.json")
    if os.path.exists(p):
        ids = {k.get("id") for k in known}
        for k in json.load(open(p)).get("findings", []):
            if k.get("property") == prop and k.get("id") not in ids:
                known.append(k)
    return known


CLASSIFIERS = {
    # exactly the class: cp_permute_factors raised AND a weight of the reference / of a tensor passed inside a list is zero
    "permute_zero_weight": lambda f: f.get("predicate") == "C20_permute_zero_weight",
    # exactly the class: congruence_coefficient raised, every column norm is non-zero, the float product of the norms of one matrix is 0
    "norm_product_underflow": lambda f: f.get("predicate") == "C20_congruence_norm_underflow",
}


# ----------------------------------------------------------------------------- driver
STREAMS = {
    "congruence_coefficient": ("tensorly.metrics.factors.congruence_coefficient", gen_congruence, call_congruence, pred_congruence, emit_congruence),
    "congruence_certified": ("tensorly.metrics.factors.congruence_coefficient", gen_congruence_dual, call_congruence, pred_congruence, emit_congruence_dual),
    "cp_permute_factors": ("tensorly.cp_tensor.cp_permute_factors", gen_permute, call_permute, pred_permute, emit_permute),
    "correlation_index": ("tensorly.metrics.similarity.correlation_index", gen_corridx, call_corridx, pred_corridx, emit_corridx),
    "leverage_score_dist": ("tensorly.metrics.leverage_scores.leverage_score_dist", gen_leverage, call_leverage, pred_leverage, emit_leverage),
    "regression": ("tensorly.metrics.regression", gen_reg, call_reg, pred_reg, emit_reg),
    # new streams go LAST: the single random stream of the earlier ones stays what it was
    "cp_permute_full": ("tensorly.cp_tensor.cp_permute_factors", gen_permute_full, call_permute, pred_permute_full, emit_permute_full),
    # round 8
    "congruence_edge": ("tensorly.metrics.factors.congruence_coefficient", gen_congruence_edge, call_congruence, pred_congruence, emit_congruence),
    "correlation_index_lengths": ("tensorly.metrics.similarity.correlation_index", gen_corridx_lengths, call_corridx, pred_corridx, emit_corridx),
    "cp_permute_ties": ("tensorly.cp_tensor.cp_permute_factors", gen_permute_ties, call_permute, pred_permute, emit_permute),
    "congruence_scale": ("tensorly.metrics.factors.congruence_coefficient", gen_congruence_scale, call_congruence, pred_congruence_scale, emit_congruence_scale),
}


def call_key(sname, call):
    if sname == "regression":
        return (call["fn"], call["yt"].shape, call["axis"])
    if sname == "leverage_score_dist":
        return (sname, call["M"].shape, str(call["M"].dtype), call["stream"])
    shapes = tuple(a.shape for a in call["As"])
    return (sname, shapes, call.get("absv"), call.get("method"), call.get("single"), call["stream"],
            tuple(call["sigma"]) if call.get("sigma") is not None else None)


def nontrivial(sname, call):
    if sname == "regression":
        return call["yt"].size > 1
    if sname == "leverage_score_dist":
        return call["M"].size > 1
    return len(call["As"]) > 0 and call["As"][0].shape[1] >= 2


def entry_point(sname, call):
    ep = STREAMS[sname][0]
    return ep + "." + call["fn"] if sname == "regression" else ep


def load_corpus():
    import glob, json, os
    out = []
    for fn in sorted(glob.glob(os.path.join(C.VERIF, "corpus", "C20", "*.json"))):
        try:
            d = json.load(open(fn))
            out.append((d["stream"], decode_call(d["call"])))
        except Exception:
            pass
    return out


def encode_call(call):
    return C.jsonable({k: v for k, v in call.items() if not k.startswith("_")})


def decode_call(d):
    out = {}
    for k, v in d.items():
        if isinstance(v, dict) and "shape" in v and "dtype" in v:
            out[k] = C.from_jsonable_array(v)
        elif isinstance(v, list) and v and isinstance(v[0], dict) and "shape" in v[0]:
            out[k] = [C.from_jsonable_array(x) for x in v]
        else:
            out[k] = v
    return out


def drop_header_pseudo_axiom(chk):
    """common.print_assumptions parses the header line 'Axioms:' of Coq's output as an axiom called 'Axioms'; remove exactly
    that pseudo entry (real non-stdlib axioms are still reported)."""
    chk.axioms = {k: [a for a in v if a != "Axioms"] for k, v in (getattr(chk, "axioms", None) or {}).items()}
    chk.broken = [b for b in chk.broken if not (str(b.get("what", "")).endswith("depends on non-stdlib axioms")
                                                and not C.own_axioms([a for a in b.get("detail", []) if a != "Axioms"]))]


def run(chk):
    import os, time
    rng = random.Random(chk.seed)
    laps = {}
    tm = {"t": time.time(), "c": sum(os.times()[:4])}

    def lap(name):     # CPU seconds (this process + waited-for children) and wall seconds per phase
        now_t, now_c = time.time(), sum(os.times()[:4])
        laps[name] = {"wall_s": round(now_t - tm["t"], 2), "cpu_s": round(now_c - tm["c"], 2)}
        tm["t"], tm["c"] = now_t, now_c
    chk.build_proofs()
    drop_header_pseudo_axiom(chk)
    lap("build_proofs")
    C.reset_backends()
    tier = chk.tier
    cases, meta = [], []
    skipped = 0
    global SRC_EVERY
    SRC_EVERY = 1 if tier == "quick" else 3
    SRC_FORMS.clear(); SRC_FORMS.update(translate_all(C.REPO, REG))
    chk.cov["source_tie_regression"] = prove_source_tie(SRC_FORMS)
    ties = source_tie_records(chk)
    chk.cov["source_tie_modules"] = {n: (st if st != "broken" else "BROKEN: " + str(v)[:200]) for n, (st, v) in ties.items()}
    differs = {n: v for n, (st, v) in ties.items() if st == "differs"}
    wrap_streams = {sn for n in differs for sn in SRC_TIES[n][3]}

    def wrap_src(lit):      # the extracted record differs from the canonical one: its interpretation is compared with the model on the case
        head, body = lit[1:-1].split(", ", 1)
        opt = lambda n: f"(Some {differs[n]})" if n in differs else "None"
        return (f"({head}, KSrc {opt('factors.congruence_coefficient')} {opt('similarity.correlation_index')} "
                f"{opt('leverage_scores.leverage_score_dist')} {opt('cp_tensor.cp_permute_factors')} ({body}))")
    chk.cov["metrics_public_functions"] = metrics_inventory(C.REPO)
    lap("source_tie")
    todo = load_corpus()
    only = [x for x in os.environ.get("VERIF_C20_ONLY", "").split(",") if x]      # development aid (mutation screening): a subset of streams
    for sname, (ep, gen, call_fn, pred, emit) in STREAMS.items():
        cs_ = [(sname, c) for c in gen(tier, rng)]       # always generated: the random stream does not depend on the selection
        if not only or sname in only:
            todo += cs_
    if only:
        chk.cov["dev_only_streams"] = only
    for sname, call in todo:
        ep, gen, call_fn, pred, emit = STREAMS[sname]
        out = call_fn(call)
        chk.count(key=call_key(sname, call), nontrivial=nontrivial(sname, call))
        chk.hist("entry_point", sname if sname != "regression" else call["fn"])
        chk.hist("stream", call.get("stream", "?")); chk.hist("outcome", out[0])
        if sname != "regression" and sname != "leverage_score_dist":
            chk.hist("rank", call["As"][0].shape[1] if len(call["As"]) else 0); chk.hist("modes", len(call["As"]))
        for predicate, msg in pred(call, out):
            chk.finding(entry_point(sname, call), {"stream": sname, "call": encode_call(call)}, msg, predicate,
                        observed=str(out[1])[:300])
        if out[0] == "crash":
            chk.finding(entry_point(sname, call), {"stream": sname, "call": encode_call(call)}, f"crashed: {out[1]}", "C20_no_crash")
            continue
        if out[0] == "ok" and sname in ("regression",) and not finite(out[1]):
            skipped += 1; chk.hist("skipped", "non-finite (constant slice)"); continue
        if sname.startswith("correlation_index") and out[0] == "ok" and not call.get("malformed"):
            try:
                if threshold_ambiguous(call):
                    skipped += 1; chk.hist("skipped", "correlation index within 1e-7 of tol"); continue
            except Exception:
                pass
        cid = len(cases)
        try:
            lit = emit(cid, call, out)
        except (ValueError, OverflowError) as e:     # NaN / inf in an output: a finding, never a harness error
            chk.finding(entry_point(sname, call), {"stream": sname, "call": encode_call(call)},
                        f"non-finite output cannot be compared with the model: {e}", "C20_finite_output", observed=str(out[1])[:300])
            continue
        if lit is None:
            skipped += 1; chk.hist("skipped", "rejected by floating-point underflow (known finding), exact model not comparable"); continue
        if sname in wrap_streams:
            lit = wrap_src(lit)
        cases.append(lit); meta.append((sname, call, out))
        if cid % 211 == 0:
            chk.sample({"entry_point": entry_point(sname, call), "stream": call.get("stream"), "outcome": out[0],
                        "output": str(out[1])[:120], "input_shapes": [list(np.asarray(a).shape) for a in call.get("As", [call.get("yt", call.get("M"))])]}, maxn=6)
    lap("implementation_and_predicates")
    # the cheap regression cases go into larger shards of their own (coqc start-up dominates them)
    heavy = [c for c, m in zip(cases, meta) if m[0] != "regression"]
    light = [c for c, m in zip(cases, meta) if m[0] == "regression"]
    failing, n_eval, broken = C.run_case_shards("C20", HEADER, "case", heavy, shard=60 if tier == "quick" else 120)
    f2, n2, b2 = C.run_case_shards("C20", HEADER, "case", light, shard=150 if tier == "quick" else 250, tag="reg")
    failing |= f2; n_eval += n2; broken += b2
    lap("coq_case_shards")
    chk.cov["phase_times"] = laps
    chk.checker_cmds.append("coqc (vm_compute) on generated build/cases/C20/*.v: Corr.C20.failing")
    chk.cov["traces_validated_against_impl"] = n_eval
    chk.cov["skipped_ill_conditioned"] = skipped
    chk.cov["rule"] = ("congruence_coefficient / cp_permute_factors / correlation_index on dyadic factor sets of rank 1-5 (thorough: 6), 1-3 modes, "
                       "heights 1-6: independent sets, EVERY column permutation of rank <= 4 (thorough <= 5) with sampled non-zero (signed) "
                       "scalings, tied, perturbed and malformed inputs, single matrices and lists, absolute_value on/off/default, all four "
                       "correlation-index methods with default and custom tol; congruence_coefficient at ranks 2-10 (thorough 2-14) with the "
                       "returned matching certified optimal by an LP-dual certificate evaluated in Coq (and by the brute force as well at rank <= 5); "
                       "cp_permute_factors on single tensors and lists of two different "
                       "tensors, and once more through the full model with the cp_copy / cp_normalize glue (weights of every sign; zero weights "
                       "in the tensor passed alone, in a listed tensor, in the reference; arguments must stay untouched); leverage scores of random and exactly rank-deficient matrices (float64 and float32); the eight regression "
                       "metrics over every axis (+None, +1 invalid) of a grid of shapes.  distinct key = (entry point, shapes, options, "
                       "stream, permutation); non-trivial = rank >= 2 resp. more than one entry")
    for b in broken:
        chk.broken.append({"what": "correspondence corr:C20 shard not evaluated", "detail": b})
    for i in sorted(failing):
        sname, call, out = meta[i]
        chk.disagreement(f"corr:C20 (Model/Metrics.v vs {entry_point(sname, call)})",
                         {"stream": sname, "call": encode_call(call), "impl": str(out[1])[:300]})
    chk.assumptions = ["exact-arithmetic semantics: floating-point rounding is outside the model (values through sqrt/division compared at 1e-9)",
                       "the r! brute force in Coq runs on the exact congruence matrix rounded down to multiples of 2^-80 (scores move by < 2^-80)",
                       "column norms, the assignment and the thin SVD are oracle answers whose contracts are re-checked in Coq on every case",
                       "dual certificates: the column potentials come from a Hungarian algorithm in the harness (untrusted data); Coq recomputes the row "
                       "potentials and the duality gap on the matrix rounded to 2^-80 and accepts gap <= 1e-9 * rank (theorem: value within 1e-9 of the optimum)",
                       "sqrt in the executed model = floor(sqrt(x * 2^200)) / 2^100 (Z.sqrt); numpy's sqrt is compared with it at 1e-9",
                       "factor matrices have no exactly-zero column (the code rejects them) and at least one row and column",
                       "cp_normalize inside cp_permute_factors is C04's model (Model/Transforms.v); its column norms are an answer tape re-checked per case "
                       "(exact zeros allowed: a zero weight absorbed into factor 0)"]
    chk.trusted += ["ast translator regression.py -> Corr.C20.rexp (its output is compared with the hand-written model by conversion and on samples)",
                    "symbolic executors factors.py / similarity.py / leverage_scores.py / cp_tensor.cp_permute_factors -> Model.MetricsSrc records (statement patterns, "
                    "operand order of or / == / + / *, inlining of pure temporaries and one-line helpers; unknown statement = broken tie); "
                    "the meaning of a record is Model/MetricsSrc.v, equal to the model for the canonical record by Proofs/MetricsSrcTie.v"]
    chk.trusted += ["oracles: numpy sqrt (column norms), scipy.optimize.linear_sum_assignment, numpy.linalg.svd -- answers checked per case "
                    "(norm^2 = sum of squares to 1e-11; matching value = brute-force optimum over all r! matchings to 1e-9; U^T U = I, U S V^T = M to 1e-9)"]
    C.load_known = _load_known_merged
    return chk.finish(CLASSIFIERS)


def replay(payload):
    if payload.get("kind") != "failing-input":
        print("replay file names a broken theorem/correspondence, not an input:", payload.get("theorem_or_correspondence"))
        return 1
    C.reset_backends()
    inp = payload["inputs"]
    sname = inp["stream"]
    call = decode_call(inp["call"])
    ep, gen, call_fn, pred, emit = STREAMS[sname]
    out = call_fn(call)
    fails = pred(call, out)
    if out[0] == "crash":
        fails.append(("C20_no_crash", str(out[1])))
    for p, m in fails:
        print("replay:", p, m)
    if not fails:
        print("replay: all predicates hold")
    return 1 if fails else 0
