#!/bin/bash
# usage: apply_fix.sh <diff file> "<commit message starting with fix:>" [pytest targets...]  -- applies one candidate repair to /repo,
# runs the given tests (default: whole tensorly suite minus the two known-unstable tests) and commits it on success.
d=$1; msg=$2; shift 2
cd /repo || exit 2
[ -n "$(git status --porcelain --untracked-files=no)" ] && { echo "repo dirty"; exit 2; }
git apply --check "$d" || { echo "patch does not apply"; exit 2; }
git apply "$d"
t="$@"; [ -z "$t" ] && t=tensorly
PYTHONPATH=/repo /venv/bin/python -m pytest -q -p no:cacheprovider --timeout=900 --deselect tensorly/datasets/tests/test_imports.py::test_indian_pines --deselect tensorly/tests/test_backend.py::test_svd_time $t > /verif/build/apply_fix.log 2>&1
rc=$?; tail -1 /verif/build/apply_fix.log
if [ $rc -ne 0 ]; then echo "TESTS FAILED - reverting"; git checkout -- .; exit 1; fi
git commit -qam "$msg" && git log --oneline | head -1
