#!/bin/bash
# usage: confirm_seeded.sh <pid> <A|B|C..> [srcdir]   -- confirms a seeded defect in a scratch worktree and stores it under /verif/seeded
pid=$1; x=$2; src=${3:-/tmp/mut/${pid}_out}; wt=/tmp/confirm/${pid}$x
mkdir -p /tmp/confirm; git -C /repo worktree add -q --detach $wt HEAD || exit 3
res="$pid$x:"
(cd $wt && PYTHONPATH=$wt timeout 600 /venv/bin/python $src/demo$x.py > /tmp/confirm/${pid}$x.clean.log 2>&1); c=$?
git -C $wt apply $src/patch$x.diff || { echo "$res patch does not apply"; git -C /repo worktree remove --force $wt; exit 3; }
(cd $wt && PYTHONPATH=$wt timeout 600 /venv/bin/python $src/demo$x.py > /tmp/confirm/${pid}$x.mut.log 2>&1); m=$?
(cd $wt && PYTHONPATH=$wt timeout 5400 /venv/bin/python -m pytest -q -p no:cacheprovider --timeout=900 --deselect tensorly/datasets/tests/test_imports.py::test_indian_pines --deselect tensorly/tests/test_backend.py::test_svd_time tensorly > /tmp/confirm/${pid}$x.pytest.log 2>&1); t=$?
summary=$(tail -1 /tmp/confirm/${pid}$x.pytest.log)
git -C /repo worktree remove --force $wt
echo "$res demo_clean_exit=$c demo_mutated_exit=$m pytest_exit=$t [$summary]"
if [ $c -eq 0 ] && [ $m -ne 0 ] && [ $t -eq 0 ]; then
  d=/verif/seeded/${pid}$x; mkdir -p $d
  cp $src/patch$x.diff $d/patch.diff; cp $src/demo$x.py $d/demo.py
  /venv/bin/python - "$src/meta$x.json" "$d/meta.json" "$summary" <<'PY'
import json,sys
m=json.load(open(sys.argv[1]))
m["confirmed_by_coordinator"]={"demo_on_clean_tree":"exit 0","demo_with_patch":"exit != 0","test_suite_with_patch":sys.argv[3],"how":"tools/confirm_seeded.sh in a scratch worktree of /repo HEAD (test_indian_pines pre-existing failure and the wall-clock test_svd_time deselected)"}
json.dump(m,open(sys.argv[2],"w"),indent=1)
PY
  echo "$res CONFIRMED -> $d"
fi
