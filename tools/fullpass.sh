#!/bin/bash
# usage: fullpass.sh [tier] [ids...]   -- runs the checks (default: every check claimed in MANIFEST.json) one after another on the
# unchanged tree and prints one summary line per check; exit 1 if any check did not exit 0. Logs: /verif/build/fullpass/<id>.<tier>.log
tier=${1:-quick}; shift
cd /verif; mkdir -p build/fullpass
ids="$@"; [ -z "$ids" ] && ids=$(/venv/bin/python -c "import json;print(' '.join(c['property_id'] for c in json.load(open('/verif/MANIFEST.json'))['checks']))")
bad=0
for pid in $ids; do
  s=$(date +%s); ./check $pid --tier $tier > build/fullpass/$pid.$tier.log 2>&1; rc=$?; e=$(date +%s)
  [ $rc -ne 0 ] && bad=1
  echo "$pid tier=$tier rc=$rc wall=$((e-s))s viol=$(grep -c '^VIOLATION' build/fullpass/$pid.$tier.log) known=$(grep -c '^KNOWN-FINDING' build/fullpass/$pid.$tier.log) | $(tail -1 build/fullpass/$pid.$tier.log | cut -c1-170)"
done
exit $bad
