#!/venv/bin/python
"""Regenerates /verif/MANIFEST.json from the table below (single source of truth)."""
import json, os
V = os.path.dirname(os.path.dirname(os.path.abspath(__file__)))
ALL = [f"C{n:02d}" for n in range(1, 21)]

PROOF_NOTE = ("Trusted: Coq 8.16.1 kernel and vm_compute (no native_compute); the axioms printed by Print Assumptions on each run "
              "(copied into the evidence file); the hand-written Gallina model, tied to /repo's current source only by the "
              "correspondence check of this run (sampled inputs, exact or toleranced comparison inside Coq); the Python harness "
              "(generators, literal printers, comparators). NumPy/LAPACK primitives and floating-point rounding are modelled or "
              "treated as oracles, not verified. ")

CHECKS = {
    "C01": dict(
        text=("Full: machine-checked theorems (closed under the global context) that the model of tensorly/base.py's unfold/fold/"
              "tensor_to_vec/vec_to_tensor is the documented layout, a permutation of the entries and an exact inverse pair; that partial_fold / partial_vec_to_tensor "
              "invert partial_unfold / partial_tensor_to_vec whenever the latter succeed and that they succeed on the documented domain; that matricize "
              "has the documented row/column layout, only permutes entries, defaults to the ascending complement and rejects non-permutations - for every "
              "element type, order, shape with non-empty index space, mode and skip split (15 theorems); plus an exhaustive bit-exact correspondence of all nine "
              "functions (and of the NumPy primitives reshape/moveaxis/transpose) against the model on every shape of order 1-4 over "
              "mode sizes {1,2,3}, and byte-level dtype/layout predicates on the implementation."),
        technique="Coq proof (induction over shapes) + vm_compute differential correspondence",
        note=PROOF_NOTE + "Size-0 modes are outside the theorems.",
        design="7/C01"),
}

HOLD = set(open(os.path.join(V, "tools", "manifest.hold")).read().split()) if os.path.exists(os.path.join(V, "tools", "manifest.hold")) else set()
NOT_YET = "check not built yet in this round (work in progress; see DESIGN.md section 7 for the plan)"


def main():
    d = os.path.join(V, "tools", "manifest.d")
    if os.path.isdir(d):
        for fn in sorted(os.listdir(d)):
            if fn.endswith(".json"):
                e = json.load(open(os.path.join(d, fn)))
                if fn[:-5] in HOLD or len(e.get("text", "")) < 200:   # placeholder or held back by the coordinator
                    continue
                e.setdefault("note", "")
                e["note"] = PROOF_NOTE + e["note"]
                e.setdefault("design", "7/" + fn[:-5])
                CHECKS[fn[:-5]] = e
    # merge known-findings snippets
    kd = os.path.join(V, "known_findings.d")
    kf = {"findings": [], "fixed": []}
    main_kf = os.path.join(V, "known_findings.base.json")
    srcs = ([main_kf] if os.path.exists(main_kf) else []) + ([os.path.join(kd, f) for f in sorted(os.listdir(kd)) if f.endswith(".json")] if os.path.isdir(kd) else [])
    for p in srcs:
        e = json.load(open(p))
        kf["findings"] += e.get("findings", [])
        kf["fixed"] += e.get("fixed", [])
    with open(os.path.join(V, "known_findings.json"), "w") as f:
        json.dump(kf, f, indent=1)
    checks = []
    for pid in ALL:
        if pid not in CHECKS:
            continue
        c = CHECKS[pid]
        checks.append(dict(
            property_id=pid,
            quick_cmd=f"./check {pid} --tier quick",
            thorough_cmd=f"./check {pid} --tier thorough",
            evidence_file=f"/verif/evidence/{pid}.json",
            replay_cmd_template=f"./check {pid} --replay {{path}}",
            engine="coq-corr",
            level_claimed=dict(category="proof", text=c["text"], design_ref="DESIGN.md section " + c["design"]),
            level_note=c["note"],
            technique=c["technique"]))
    man = dict(
        version=1,
        setup_cmd="mkdir -p /verif/build && /verif/tools/setup.sh",
        hooks=dict(guard="TENSORLY_VERIF", enable="no source hooks are needed: all observations are taken through public extension points from the harness; ./check exports TENSORLY_VERIF=1 for uniformity",
                   baseline_off_cmd="cd /repo && /venv/bin/python -m pytest -ra -q -p no:cacheprovider --timeout=900 --continue-on-collection-errors",
                   source_commits=[], add_only=True),
        engines=[dict(name="coq-corr", path="/verif/check", serves_properties=[c["property_id"] for c in checks],
                      kind_free_text="Coq 8.16 theorems about hand-written Gallina models (coq/theories) + per-run correspondence: the harness runs the implementation from /repo, emits inputs and observed outputs as Gallina literals, and Coq evaluates the model on them with vm_compute and reports disagreeing case ids; Python predicates transcribing the theorem statements search for concrete failing inputs")],
        checks=checks,
        notes="See DESIGN.md. Known findings in known_findings.json; seeded defects used to validate the checks in seeded/.",
        not_applicable=[dict(property_id=p, reason=NOT_YET) for p in ALL if p not in CHECKS])
    with open(os.path.join(V, "MANIFEST.json"), "w") as f:
        json.dump(man, f, indent=1)
    print("MANIFEST.json written:", len(checks), "checks")


if __name__ == "__main__":
    main()
