#!/venv/bin/python
"""Generates the prompts handed to independent mutation sub-agents (they see ONLY the property text and a scratch
worktree of /repo; nothing from /verif).  usage: mutation_prompts.py <outdir> [wave-tag] ; writes <outdir>/Cxx.txt"""
import json, os, sys

T = """You are testing how well a verification effort detects realistic regressions in the TensorLy library (pure Python over NumPy; only the NumPy backend is installed; no network). You work ONLY inside your own scratch git worktree of the repository: @WT@ (create it first with `git -C /repo worktree add --detach @WT@ HEAD`; if it already exists, remove it with `git -C /repo worktree remove --force @WT@` and re-create it). NEVER edit /repo itself and do not look at /verif (it is off limits to you). Python: `cd @WT@ && PYTHONPATH=@WT@ /venv/bin/python ...`.

The property under test (this text is all you get about it):

  @TITLE@
  @STATEMENT@
  Quantification: @QUANT@

Your task: produce TWO different changes (call them @A@ and @B@) to the library source under @WT@/tensorly (not to its tests) such that each change
  1. BREAKS the property above (for some input / option combination / sequence of calls the property covers),
  2. still imports fine and PASSES THE ENTIRE EXISTING TEST SUITE unchanged: `cd @WT@ && PYTHONPATH=@WT@ /venv/bin/python -m pytest -q -p no:cacheprovider --timeout=900 --deselect tensorly/datasets/tests/test_imports.py::test_indian_pines --deselect tensorly/tests/test_backend.py::test_svd_time tensorly` (takes about 4-8 minutes; `test_indian_pines` fails on the unchanged tree already and `test_svd_time` is a wall-clock test - both are deselected),
  3. looks like a plausible human edit (a refactoring slip, an "optimisation", a wrong index / sign / default / off-by-one, a dropped copy or conjugate or cast, a reordered statement, a misplaced early exit) - not sabotage like `if x == 42`,
  4. needs something SPECIFIC to manifest - an unusual but legal input (a degenerate shape, a size-1 mode, a particular option combination, a complex or single-precision dtype, negative values, ties, an exact zero), a multi-step sequence of calls, a particular interleaving, or two cooperating sites that each look fine alone - so that ordinary use and the existing tests do not expose it at once. Avoid changes that break almost every call.
The two changes must touch DIFFERENT functions / mechanisms relevant to the property@AVOID@.

For each change X in {@A@, @B@} deliver, in the directory @OUT@ (create it):
  * `patch@X@.diff` style naming: `patch@A@.diff` / `patch@B@.diff` - a unified diff produced by `git -C @WT@ diff` with ONLY that change applied (it must pass `git apply --check` on a clean checkout of /repo HEAD);
  * `demo@A@.py` / `demo@B@.py` - a small self-contained program (imports tensorly from PYTHONPATH, prints PASS/FAIL, exit code 0 iff the property holds on its inputs) that exits 0 on the unchanged tree and non-zero with the change applied; it should check the property as stated (not an implementation detail) on the specific input that needs to manifest;
  * `meta@A@.json` / `meta@B@.json` - {"property": "@PID@", "title": one line, "files_changed": [...], "what_it_needs_to_manifest": "...", "why_tests_miss_it": "...", "verified": "what you ran and saw (suite result with the patch, demo exit codes with and without)"}.
Work on one change at a time: apply it, run the demo, run the full suite, save the diff, then `git -C @WT@ checkout -- .` before the next one. When both are done (or you have given up on one after honest attempts - say so), remove your worktree (`git -C /repo worktree remove --force @WT@`) and reply with a short summary (what each change is, what it needs to manifest, the suite results).
"""


def main():
    out = sys.argv[1]
    tag = sys.argv[2] if len(sys.argv) > 2 else ""
    letters = {"": ("A", "B"), "2": ("C", "D"), "3": ("E", "F")}[tag]
    os.makedirs(out, exist_ok=True)
    avoid = json.load(open(sys.argv[3])) if len(sys.argv) > 3 else {}
    for line in open("/verif/properties.jsonl"):
        p = json.loads(line)
        pid = p["id"]
        av = avoid.get(pid)
        txt = (T.replace("@WT@", f"/tmp/mut/{pid}{tag}").replace("@OUT@", f"/tmp/mut/{pid}{tag}_out")
               .replace("@TITLE@", p["title"]).replace("@STATEMENT@", p["statement"]).replace("@QUANT@", p["quantifier"]["text"])
               .replace("@PID@", pid).replace("@A@", letters[0]).replace("@B@", letters[1]).replace("@X@", "X")
               .replace("@AVOID@", f", and must differ from these already-known ones: {av}" if av else ""))
        open(os.path.join(out, f"{pid}.txt"), "w").write(txt)
    print("written to", out)


if __name__ == "__main__":
    main()
