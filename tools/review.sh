#!/bin/bash
# coordinator's acceptance run for one property: quick check on the unchanged tree (twice, two seeds), evidence schema, theorem list, seeded defects
pid=$1
cd /verif
echo "=== $pid quick (default seed)"; /usr/bin/time -f "wall %es" ./check $pid --tier quick 2>&1 | tail -4
echo "=== $pid quick (VERIF_SEED=7)"; VERIF_SEED=7 VERIF_EVIDENCE_DIR=/tmp/ev_seed7 ./check $pid --tier quick 2>&1 | tail -2
python3-vt - <<PY
import json,jsonschema
e=json.load(open('/verif/evidence/$pid.json')); s=json.load(open('/root/.vp/EVIDENCE.schema.json'))
jsonschema.validate(e,s)
c=e['coverage']
print("evidence valid: level",e['level'],"obligations",c.get('obligations'),"discharged",c.get('discharged'),"evaluations",c.get('evaluations'),"distinct_nontrivial",c.get('distinct_nontrivial'),"traces",c.get('traces_validated_against_impl'),"known hit",c.get('known_findings_hit'))
ax=sorted({a for v in c.get('axioms_per_theorem',{}).values() for a in v})
print("axioms:",ax)
PY
echo "=== theorems"; grep -E "^(Theorem|Corollary|Example)" coq/theories/Props/$pid.v | cut -c1-150
echo "=== lines: model/proofs/harness"; wc -l coq/theories/Model/*.v coq/theories/Proofs/*.v harness/props/$pid*.py 2>/dev/null | tail -1
echo "=== seeded"; ls seeded | grep "^$pid" | while read sid; do tools/run_seeded.sh $pid $sid; done
