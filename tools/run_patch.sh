#!/bin/bash
# usage: run_patch.sh <check id> <patch file> <tag> [tier]  -- runs a check against a scratch worktree of /repo HEAD with the patch applied
pid=$1; patch=$2; tag=$3; tier=${4:-quick}; wt=/tmp/wt_seeded/${tag}_$pid
mkdir -p /tmp/wt_seeded /tmp/seeded_out/${tag}_$pid
git -C /repo worktree add -q --detach $wt HEAD || exit 3
git -C $wt apply $patch || { git -C /repo worktree remove --force $wt; echo "tag=$tag patch does not apply"; exit 3; }
cd /verif && VERIF_REPO=$wt VERIF_EVIDENCE_DIR=/tmp/seeded_out/${tag}_$pid VERIF_REPLAY_DIR=/tmp/seeded_out/${tag}_$pid/replays ./check $pid --tier $tier > /tmp/seeded_out/${tag}_$pid/log 2>&1
rc=$?
git -C /repo worktree remove --force $wt
echo "tag=$tag check=$pid tier=$tier exit=$rc $(grep -c '^VIOLATION' /tmp/seeded_out/${tag}_$pid/log) violation lines; $(tail -1 /tmp/seeded_out/${tag}_$pid/log | cut -c1-200)"
