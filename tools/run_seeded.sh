#!/bin/bash
# usage: run_seeded.sh <check id> <seeded dir name> [tier]   -- runs a check against a scratch worktree with the seeded patch applied
pid=$1; sd=/verif/seeded/$2; tier=${3:-quick}; wt=/tmp/wt_seeded/$2_$pid
mkdir -p /tmp/wt_seeded /tmp/seeded_out/$2_$pid
git -C /repo worktree add -q --detach $wt HEAD || exit 3
git -C $wt apply $sd/patch.diff || { git -C /repo worktree remove --force $wt; echo "patch does not apply"; exit 3; }
cd /verif && VERIF_REPO=$wt VERIF_EVIDENCE_DIR=/tmp/seeded_out/$2_$pid VERIF_REPLAY_DIR=/tmp/seeded_out/$2_$pid/replays ./check $pid --tier $tier > /tmp/seeded_out/$2_$pid/log 2>&1
rc=$?
git -C /repo worktree remove --force $wt
echo "seeded=$2 check=$pid tier=$tier exit=$rc $(grep -c '^VIOLATION' /tmp/seeded_out/$2_$pid/log) violation lines; $(tail -1 /tmp/seeded_out/$2_$pid/log)"
