#!/venv/bin/python
"""Runs every confirmed seeded defect against the quick check of its property (on a scratch worktree) and records
which are caught: seeded/RESULTS.json + a markdown table on stdout.  usage: seeded_matrix.py [ids...] [-j N]"""
import json, os, re, subprocess, sys
from concurrent.futures import ThreadPoolExecutor
V = "/verif"
ids = [a for a in sys.argv[1:] if not a.startswith("-")] or sorted(os.listdir(f"{V}/seeded"))
ids = [i for i in ids if os.path.isdir(f"{V}/seeded/{i}")]
jobs = 3
def run(sid):
    pid = sid[:3]
    meta = json.load(open(f"{V}/seeded/{sid}/meta.json"))
    if meta.get("neutralised_by"):
        return sid, dict(check=pid, result="no longer a defect (neutralised by a later /repo repair: its demo passes with the change applied); check stays quiet", last=meta["neutralised_by"][:200])
    if not os.path.exists(f"{V}/harness/props/{pid}.py"):
        return sid, dict(check=pid, result="no check yet")
    r = subprocess.run([f"{V}/tools/run_seeded.sh", pid, sid], capture_output=True, text=True)
    m = re.search(r"exit=(\d+) (\d+) violation", r.stdout)
    rc = int(m.group(1)) if m else -1
    log = open(f"/tmp/seeded_out/{sid}_{pid}/log").read() if os.path.exists(f"/tmp/seeded_out/{sid}_{pid}/log") else ""
    nf = "no-failing-input-found" in log and not re.search(r"^VIOLATION (?!.*no-failing-input-found)", log, re.M)
    res = "CAUGHT (failing input)" if rc == 1 and not nf else "CAUGHT (no-failing-input-found)" if rc == 1 else "MISSED" if rc == 0 else f"harness error rc={rc}"
    return sid, dict(check=pid, result=res, last=log.strip().splitlines()[-1][:200] if log.strip() else r.stdout[-200:])
with ThreadPoolExecutor(jobs) as ex:
    out = dict(ex.map(run, ids))
path = f"{V}/seeded/RESULTS.json"
old = json.load(open(path)) if os.path.exists(path) else {}
old.update(out)
json.dump(old, open(path, "w"), indent=1, sort_keys=True)
for sid in sorted(old):
    meta = json.load(open(f"{V}/seeded/{sid}/meta.json"))
    print(f"| {sid} | {meta.get('title','')[:70]} | {old[sid]['result']} |")
