#!/bin/bash
# MANIFEST.setup_cmd: full .vo build of the Coq development (never -vos), offline.
# -k keeps going past a broken file so that one property's broken proof cannot take the other checks down;
# the build is accepted only if every claimed check's Props/Corr object files exist (a check whose proofs do
# not build reports that itself as a broken proof obligation).
cd /verif/coq || exit 1
coq_makefile -f _CoqProject -o Makefile $(find theories -name '*.v' | sort) > /dev/null || exit 1
timeout 3400 make -k -j16 > /verif/build/setup.log 2>&1
rc=$?
missing=0
for pid in $(/venv/bin/python -c "import json;print(' '.join(c['property_id'] for c in json.load(open('/verif/MANIFEST.json'))['checks']))"); do
  for f in theories/Props/$pid.vo theories/Corr/$pid.vo; do
    if [ -f "theories/${f#theories/}" ]; then :; elif [ -f "${f%.vo}.v" ]; then echo "setup: $f was not built"; missing=1; fi
  done
done
tail -3 /verif/build/setup.log
echo "setup: make exit=$rc missing=$missing"
exit $missing
