#!/venv/bin/python
"""Rewrites the generated tables of DESIGN.md section 0 (between the STATUS / SEEDED markers) from what is on disk:
MANIFEST.json, coq/theories/Props/*.v, evidence/*.json, known_findings.json, seeded/RESULTS.json."""
import json, os, re
V = "/verif"
man = json.load(open(f"{V}/MANIFEST.json"))
claimed = {c["property_id"]: c for c in man["checks"]}
kf = json.load(open(f"{V}/known_findings.json"))
rows = ["| id | claimed | theorems in Props (full / _partial / _refuted) | axioms (Print Assumptions, this tree) | quick: evaluations / distinct non-trivial / wall | known findings | fixed defects |",
        "|---|---|---|---|---|---|---|"]
for n in range(1, 21):
    pid = f"C{n:02d}"
    pf = f"{V}/coq/theories/Props/{pid}.v"
    names = re.findall(r"^\s*(?:Theorem|Corollary)\s+(\w+)", open(pf).read(), re.M) if os.path.exists(pf) else []
    part = [x for x in names if x.endswith("_partial")]; ref = [x for x in names if x.endswith("_refuted")]
    ev = json.load(open(f"{V}/evidence/{pid}.json")) if os.path.exists(f"{V}/evidence/{pid}.json") else None
    ax = "-"; evs = "-"
    if ev:
        c = ev["coverage"]
        a = sorted({x for v in c.get("axioms_per_theorem", {}).values() for x in v})
        closed = sum(1 for v in c.get("axioms_per_theorem", {}).values() if not v)
        ax = f"{closed} closed; others: " + (", ".join(x.split('.')[-1] for x in a) if a else "none")
        evs = f"{c.get('evaluations')} / {c.get('distinct_nontrivial')} / {ev.get('wall_s')} s"
    nk = [k["id"] for k in kf["findings"] if k.get("property") == pid]
    nf = sum(1 for s in kf["fixed"] if f"property={pid} " in s)
    rows.append(f"| {pid} | {'yes' if pid in claimed else 'no'} | {len(names)} ({len(names)-len(part)-len(ref)} / {len(part)} / {len(ref)}) | {ax} | {evs} | {len(nk)}{(': ' + ', '.join(nk)) if nk else ''} | {nf} |")
status = "\n".join(rows)
seeded = ""
rp = f"{V}/seeded/RESULTS.json"
if os.path.exists(rp):
    res = json.load(open(rp))
    r2 = ["| seeded defect | what it changes | needs to manifest | quick check result |", "|---|---|---|---|"]
    for sid in sorted(res):
        mp = f"{V}/seeded/{sid}/meta.json"
        if not os.path.exists(mp):
            continue
        m = json.load(open(mp))
        r2.append(f"| {sid} | {m.get('title','')[:160]} | {str(m.get('what_it_needs_to_manifest',''))[:160]} | {res[sid]['result']} |")
    seeded = "\n".join(r2)
d = open(f"{V}/DESIGN.md").read()
def put(d, tag, body):
    a, b = f"<!-- {tag}-BEGIN -->", f"<!-- {tag}-END -->"
    if a not in d:
        return d
    return d[:d.index(a) + len(a)] + "\n" + body + "\n" + d[d.index(b):]
detail = []
for pid in sorted(claimed):
    c = claimed[pid]
    detail.append(f"**{pid}** - technique: {c.get('technique','')}\n\n{c['level_claimed']['text']}\n\n*Assumed / trusted:* {c['level_note']}\n")
fixed_md = "\n".join("* " + x[len("fixed: "):] if x.startswith("fixed: ") else "* " + x for x in kf["fixed"])
known_md = "\n".join(f"* **{k.get('property')}** `{k.get('id')}` ({k.get('entry_point')}): {k.get('what')}" + (f" - *why not repaired:* {k['why_not_fixed']}" if k.get('why_not_fixed') else "") for k in kf["findings"]) or "(none)"
d = put(d, "FIXED", fixed_md); d = put(d, "KNOWN", known_md)
d = put(d, "STATUS", status); d = put(d, "SEEDED", seeded); d = put(d, "DETAIL", "\n".join(detail))
open(f"{V}/DESIGN.md", "w").write(d)
print(status)
