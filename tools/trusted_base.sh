#!/bin/bash
# usage: trusted_base.sh  -- re-checks every compiled Props/Cxx.vo (and everything it depends on) with the independent checker coqchk,
# prints the axioms each relies on and rewrites the COQCHK block of DESIGN.md. Takes 15-40 min; run on an otherwise idle machine.
cd /verif/coq || exit 1
out=/verif/build/coqchk.log; : > $out
for p in $(seq -w 1 20); do
  echo "=== C$p" >> $out
  timeout 3000 coqchk -silent -o -R theories TLV TLV.Props.C$p 2>&1 | tail -400 >> $out
done
/venv/bin/python - <<'PY'
import re
s=open('/verif/build/coqchk.log').read()
rows=["| Props file | coqchk result | axioms of the loaded context (coqchk -o) |","|---|---|---|"]
for blk in s.split('=== ')[1:]:
    pid=blk.split('\n')[0]
    ax=re.search(r'\* Axioms:(.*?)\n\s*\n\* Constants', blk, re.S)
    a=[x.strip() for x in ax.group(1).strip().split('\n')] if ax else None
    if a:
        prim=[x for x in a if 'Uint63' in x or 'PrimInt63' in x or 'PrimFloat' in x]
        a=[x for x in a if x not in prim] + ([f"{len(prim)} entries of Coq.Numbers.Cyclic.Int63 (kernel primitive 63-bit integers and the standard library's specification axioms for them; loaded by the case-literal parser of Corr, no property theorem depends on them - see Print Assumptions)"] if prim else [])
    bad=[l for l in blk.split('\n') if l.startswith('* ') and 'none' not in l and 'Axioms' not in l and 'Theory' not in l]
    ok = a is not None and not bad and 'rror' not in blk
    rows.append(f"| Props/{pid}.vo | {'checked' if ok else 'NOT CHECKED: ' + blk.strip().splitlines()[-1][:120]} | {', '.join(a) if a else '-'} |")
d=open('/verif/DESIGN.md').read()
a,b="<!-- COQCHK-BEGIN -->","<!-- COQCHK-END -->"
if a in d:
    d=d[:d.index(a)+len(a)]+"\n"+"\n".join(rows)+"\n"+d[d.index(b):]
    open('/verif/DESIGN.md','w').write(d)
print("\n".join(rows))
PY
